package main

import (
	"fmt"
	"go/types"
	"strings"

	"golang.org/x/tools/go/ssa"
)

// c19SuperPeakTerms decides SuperPeak against GP E.10 by interpretation over symbolic hashes: for every peak list
// of length 0..4 and every pattern of empty (nil) slots (31 shapes) the function is followed by the abstract
// interpreter with each present peak a distinct 32-byte symbol; Keccak is opaque — each call's input is logged
// and its result is a fresh symbol. Required: no peak ↦ the zero hash; one ↦ that peak; otherwise the calls are
// exactly Keccak("peak" ⌢ acc ⌢ h_j) for j = 1.. in order with acc starting at h_0 and continuing with each
// call's result, and the result is the last acc. Recursion, an accumulating loop over a filtered list, a fold that
// filters on the fly and helper extraction are all the same to this decision.
func c19SuperPeakTerms(c *Ctx, f *ssa.Function) {
	const rule = "C19.super-peak"
	key := "(*mmr.MMR).SuperPeak"
	type hashBytes [32][8]bfBit
	sym := func(id int) hashBytes {
		var h hashBytes
		for b := 0; b < 32; b++ {
			for j := 0; j < 8; j++ {
				h[b][j] = bfBit{k: 2, i: uint16(256*id + 8*b + j)}
			}
		}
		return h
	}
	toInt := func(bits [8]bfBit) bfInt {
		v := bfInt{w: 8}
		copy(v.b[:8], bits[:])
		return v
	}
	fromAny := func(v any) [8]bfBit {
		var out [8]bfBit
		if i, ok := v.(bfInt); ok {
			copy(out[:], i.b[:8])
		}
		return out
	}
	shapes, bad := 0, ""
	for n := 0; n <= 4 && bad == ""; n++ {
		for mask := 0; mask < 1<<n && bad == ""; mask++ {
			shapes++
			desc := fmt.Sprintf("%d slots, present %0*b", n, n, mask)
			m := &bfMachine{maxSteps: 40000}
			heap := bfHeap{}
			arr := m.newArray(heap, n)
			var present []hashBytes
			for i := 0; i < n; i++ {
				if mask>>i&1 == 0 {
					continue
				}
				obj := m.newArray(heap, 32)
				h := sym(i)
				for b := 0; b < 32; b++ {
					heap[obj][b] = toInt(h[b])
				}
				heap[arr][i] = bfPtr{obj: obj, field: -1}
				present = append(present, h)
			}
			var log [][][8]bfBit
			var fresh []hashBytes
			m.hook = func(callee *ssa.Function, args []any, hp bfHeap) (any, bool) {
				if callee == nil || !strings.HasSuffix(callee.String(), "hash.KeccakHash") || len(args) != 1 {
					return nil, false
				}
				sl, ok := args[0].(bfSlice)
				if !ok {
					return nil, false
				}
				var in [][8]bfBit
				for i := sl.lo; i < sl.hi; i++ {
					in = append(in, fromAny(bfElem(hp, sl.obj, i)))
				}
				log = append(log, in)
				h := sym(16 + len(fresh))
				fresh = append(fresh, h)
				out := bfArr{n: 32, el: map[int]any{}}
				for b := 0; b < 32; b++ {
					out.el[b] = toInt(h[b])
				}
				return out, true
			}
			m.nextObj++
			recv := bfPtr{obj: m.nextObj, field: -1}
			outs := m.call(f, []any{recv, bfSlice{obj: arr, lo: 0, hi: n, cp: n}}, heap, 0)
			if len(outs) != 1 || outs[0].fault != "" || len(outs[0].results) != 1 {
				why := fmt.Sprintf("%d outcomes", len(outs))
				for _, o := range outs {
					why += fmt.Sprintf(" [fault=%q results=%d]", o.fault, len(o.results))
				}
				if len(outs) > 0 && outs[0].fault != "" {
					why = outs[0].fault
				}
				bad = desc + ": the function cannot be followed (" + why + ")"
				break
			}
			var got hashBytes
			switch r := outs[0].results[0].(type) {
			case bfArr:
				for b := 0; b < 32; b++ {
					got[b] = fromAny(r.el[b])
					if r.el[b] == nil {
						got[b] = [8]bfBit{}
					}
				}
			case bfPtr:
				for b := 0; b < 32; b++ {
					got[b] = fromAny(bfElem(outs[0].heap, r.obj, b))
				}
			default:
				bad = desc + ": the result is not a hash"
			}
			if bad != "" {
				break
			}
			var acc hashBytes
			wantCalls := 0
			if len(present) > 0 {
				acc = present[0]
				wantCalls = len(present) - 1
			}
			if len(log) != wantCalls {
				bad = fmt.Sprintf("%s: %d Keccak calls, the fold over %d peaks has %d", desc, len(log), len(present), wantCalls)
				break
			}
			for j := 1; j < len(present); j++ {
				var want [][8]bfBit
				for _, ch := range []byte("peak") {
					want = append(want, fromAny(bfConst(uint64(ch), 8, false)))
				}
				want = append(want, acc[:]...)
				want = append(want, present[j][:]...)
				in := log[j-1]
				okIn := len(in) == len(want)
				for i := 0; okIn && i < len(want); i++ {
					if in[i] != want[i] {
						okIn = false
					}
				}
				if !okIn {
					bad = fmt.Sprintf("%s: Keccak call %d does not hash $peak ⌢ (fold of the peaks before) ⌢ (peak %d of the non-empty ones)", desc, j, j)
					break
				}
				acc = fresh[j-1]
			}
			if bad == "" && got != acc {
				bad = desc + ": the result is not the folded value (zero hash for no peak, the peak itself for one)"
			}
		}
	}
	c.Check(bad == "", rule, key+" · fold (symbolic hashes)", f.Pos(), fmt.Sprintf("zero hash / the single peak / left fold Keccak($peak ⌢ acc ⌢ next) over the non-empty peaks in order, for %d list shapes", shapes), bad)
}

// bfLexLess decides that h(a, b) is "a precedes b in lexicographic order of unsigned bytes" for two 32-byte
// operands (pointers to arrays or slices): for every position k the operands share symbolic bytes before k,
// differ at k in a chosen pair of values (0/1, 0x7F/0x80, 0/0xFF, both ways) and carry unrelated symbols after
// it — the result must be decided by the pair at k alone; equal operands are not less.
func bfLexLess(h *ssa.Function) (bool, string) {
	if !bfIsModuleFunc(h) || len(h.Params) != 2 {
		return false, "not a two-operand module function"
	}
	const n = 32
	symByte := func(id int) bfInt {
		v := bfInt{w: 8}
		for j := 0; j < 8; j++ {
			v.b[j] = bfBit{k: 2, i: uint16(8*id + j)}
		}
		return v
	}
	pairs := [][2]uint64{{0, 1}, {1, 0}, {0x7F, 0x80}, {0x80, 0x7F}, {0, 0xFF}, {0xFF, 0}}
	run := func(k int, pr *[2]uint64) (bool, string) {
		m := &bfMachine{maxSteps: 20000}
		heap := bfHeap{}
		var args []any
		for side := 0; side < 2; side++ {
			obj := m.newArray(heap, n)
			for i := 0; i < n; i++ {
				switch {
				case pr != nil && i == k:
					heap[obj][i] = bfConst(pr[side], 8, false)
				case pr == nil || i < k:
					heap[obj][i] = symByte(i) // shared between the two operands
				default:
					heap[obj][i] = symByte(100 + 40*side + i)
				}
			}
			if _, isSl := h.Params[side].Type().Underlying().(*types.Slice); isSl {
				args = append(args, bfSlice{obj: obj, lo: 0, hi: n, cp: n})
			} else {
				args = append(args, bfPtr{obj: obj, field: -1})
			}
		}
		outs := m.call(h, args, heap, 0)
		if len(outs) == 0 {
			return false, "no outcome"
		}
		want := pr != nil && pr[0] < pr[1]
		for _, o := range outs {
			if o.fault != "" || len(o.results) != 1 {
				return false, "cannot be followed: " + o.fault
			}
			r, isInt := o.results[0].(bfInt)
			c, conc := r.concrete()
			if !isInt || !conc {
				return false, "the result is not decided by the first differing byte"
			}
			if (c != 0) != want {
				return false, fmt.Sprintf("result %v", c != 0)
			}
		}
		return true, ""
	}
	if ok, why := run(0, nil); !ok {
		return false, "equal operands: " + why
	}
	for k := 0; k < n; k++ {
		for i := range pairs {
			if ok, why := run(k, &pairs[i]); !ok {
				return false, fmt.Sprintf("operands first differing at byte %d (%#x vs %#x): %s", k, pairs[i][0], pairs[i][1], why)
			}
		}
	}
	return true, ""
}

// c19AppendTerms decides AppendOne (E.8) by interpretation over symbolic hashes: for the 31 prior peak lists of
// length 0..4 with every pattern of empty slots (held in a slice with spare capacity) and a new item, AppendOne
// is followed with the MMR's hash function opaque (input logged, fresh symbol returned). Required: the calls are
// exactly H(peak at height j ⌢ carried) for the occupied run of slots from height 0, in order; the result is the
// prior list with that run emptied and the carried value in the first free slot (or appended above the top);
// the result is installed as the MMR's peak list and returned; the prior list's storage is neither modified nor
// shared by the result.
func c19AppendTerms(c *Ctx, f *ssa.Function) {
	const rule = "C19.append"
	key := "(*mmr.MMR).AppendOne · result (symbolic hashes)"
	type hb [32][8]bfBit
	sym := func(id int) hb {
		var h hb
		for b := 0; b < 32; b++ {
			for j := 0; j < 8; j++ {
				h[b][j] = bfBit{k: 2, i: uint16(256*id + 8*b + j)}
			}
		}
		return h
	}
	toInt := func(bits [8]bfBit) bfInt {
		v := bfInt{w: 8}
		copy(v.b[:8], bits[:])
		return v
	}
	fromAny := func(v any) [8]bfBit {
		var out [8]bfBit
		if i, ok := v.(bfInt); ok {
			copy(out[:], i.b[:8])
		}
		return out
	}
	newHash := func(m *bfMachine, heap bfHeap, h hb) bfPtr {
		obj := m.newArray(heap, 32)
		for b := 0; b < 32; b++ {
			heap[obj][b] = toInt(h[b])
		}
		return bfPtr{obj: obj, field: -1}
	}
	readHash := func(heap bfHeap, p bfPtr) hb {
		var h hb
		for b := 0; b < 32; b++ {
			h[b] = fromAny(bfElem(heap, p.obj, b))
		}
		return h
	}
	shapes, bad := 0, ""
	for n := 0; n <= 4 && bad == ""; n++ {
		for mask := 0; mask < 1<<n && bad == ""; mask++ {
			shapes++
			desc := fmt.Sprintf("%d slots, occupied %0*b", n, n, mask)
			m := &bfMachine{maxSteps: 60000}
			heap := bfHeap{}
			arr := m.newArray(heap, n+2) // spare capacity: an in-place append would be visible
			prior := make([]*hb, n)
			for i := 0; i < n; i++ {
				if mask>>i&1 == 1 {
					h := sym(i)
					prior[i] = &h
					heap[arr][i] = newHash(m, heap, h)
				}
			}
			before := map[int]any{}
			for k, v := range heap[arr] {
				before[k] = v
			}
			item := sym(10)
			itemPtr := newHash(m, heap, item)
			m.nextObj++
			recv := bfPtr{obj: m.nextObj, field: -1}
			heap[recv.obj] = map[int]any{0: bfSlice{obj: arr, lo: 0, hi: n, cp: n + 2}, 1: bfOpaqueFn{"hashFn"}}
			var log [][][8]bfBit
			var fresh []hb
			m.hook = func(callee *ssa.Function, args []any, hp bfHeap) (any, bool) {
				if callee != nil || len(args) != 1 {
					return nil, false
				}
				sl, ok := args[0].(bfSlice)
				if !ok {
					return nil, false
				}
				var in [][8]bfBit
				for i := sl.lo; i < sl.hi; i++ {
					in = append(in, fromAny(bfElem(hp, sl.obj, i)))
				}
				log = append(log, in)
				h := sym(16 + len(fresh))
				fresh = append(fresh, h)
				out := bfArr{n: 32, el: map[int]any{}}
				for b := 0; b < 32; b++ {
					out.el[b] = toInt(h[b])
				}
				return out, true
			}
			outs := m.call(f, []any{recv, itemPtr}, heap, 0)
			if len(outs) != 1 || outs[0].fault != "" || len(outs[0].results) != 1 {
				why := fmt.Sprintf("%d outcomes", len(outs))
				for _, o := range outs {
					if o.fault != "" {
						why = o.fault
					}
				}
				bad = desc + ": the function cannot be followed (" + why + ")"
				break
			}
			oh := outs[0].heap
			res, isSl := outs[0].results[0].(bfSlice)
			if !isSl {
				bad = desc + ": the result is not a peak list"
				break
			}
			// expected (E.8)
			want := make([]*hb, n)
			copy(want, prior)
			carried := item
			var wantLog [][2]hb
			j := 0
			for ; j < n && want[j] != nil; j++ {
				wantLog = append(wantLog, [2]hb{*want[j], carried})
				want[j] = nil
				carried = sym(16 + j)
			}
			if j < n {
				cv := carried
				want[j] = &cv
			} else {
				cv := carried
				want = append(want, &cv)
			}
			if len(log) != len(wantLog) {
				bad = fmt.Sprintf("%s: %d merges, E.8 performs %d", desc, len(log), len(wantLog))
				break
			}
			for i, w := range wantLog {
				var in [][8]bfBit
				in = append(in, w[0][:]...)
				in = append(in, w[1][:]...)
				okIn := len(log[i]) == len(in)
				for k := 0; okIn && k < len(in); k++ {
					if log[i][k] != in[k] {
						okIn = false
					}
				}
				if !okIn {
					bad = fmt.Sprintf("%s: merge %d does not hash (peak at height %d ⌢ carried value)", desc, i, i)
					break
				}
			}
			if bad != "" {
				break
			}
			if res.hi-res.lo != len(want) {
				bad = fmt.Sprintf("%s: the result has %d slots, E.8 gives %d", desc, res.hi-res.lo, len(want))
				break
			}
			for i := range want {
				p, isP := rawElem(oh, res.obj, res.lo+i).(bfPtr)
				empty := !isP || p.obj == 0
				switch {
				case want[i] == nil && !empty:
					bad = fmt.Sprintf("%s: slot %d of the result should be empty", desc, i)
				case want[i] != nil && empty:
					bad = fmt.Sprintf("%s: slot %d of the result is empty", desc, i)
				case want[i] != nil && readHash(oh, p) != *want[i]:
					bad = fmt.Sprintf("%s: slot %d of the result holds a different value than E.8 gives", desc, i)
				}
			}
			if bad != "" {
				break
			}
			if inst, ok := oh[recv.obj][0].(bfSlice); !ok || inst != res {
				bad = desc + ": the result is not installed as the MMR's peak list"
				break
			}
			if res.obj == arr {
				bad = desc + ": the result shares the storage of the prior peak list"
				break
			}
			for k, v := range before {
				if oh[arr][k] != v {
					bad = desc + ": the prior peak list was modified"
				}
			}
			if len(oh[arr]) != len(before) {
				bad = desc + ": the prior peak list's storage was written"
			}
		}
	}
	c.Check(bad == "", rule, key, f.Pos(), fmt.Sprintf("merges, resulting slots, installation and privacy equal E.8 for %d prior lists", shapes), bad)
}
