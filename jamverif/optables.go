package main

import (
	"go/ast"
	"go/constant"
	"go/types"

	"golang.org/x/tools/go/packages"
)

// E2: evaluation of the PVM opcode registries from the AST.

type opTables struct {
	info      map[int64]opInfo      // opcodeInfoTable
	zeta      map[int64]bool        // zeta keys
	legacy    map[int64]*types.Func // execInstructions
	meta      map[int64]*types.Func // instrMetaExecForOpcode cases
	metaDflt  *types.Func
	legacyLen int64
}

type opInfo struct {
	name, category string
	terminator     bool
}

func constKey(p *packages.Package, e ast.Expr) (int64, bool) {
	tv, ok := p.TypesInfo.Types[e]
	if !ok || tv.Value == nil {
		return 0, false
	}
	return constant.Int64Val(constant.ToInt(tv.Value))
}

func funcIdent(p *packages.Package, e ast.Expr) *types.Func {
	id, ok := e.(*ast.Ident)
	if !ok {
		return nil
	}
	f, _ := p.TypesInfo.Uses[id].(*types.Func)
	return f
}

func (c *Ctx) loadOpTables() *opTables {
	p := c.Pkg("PVM")
	if p == nil {
		return nil
	}
	t := &opTables{info: map[int64]opInfo{}, zeta: map[int64]bool{}, legacy: map[int64]*types.Func{}, meta: map[int64]*types.Func{}}
	for _, file := range p.Syntax {
		for _, d := range file.Decls {
			switch d := d.(type) {
			case *ast.GenDecl:
				for _, sp := range d.Specs {
					vs, ok := sp.(*ast.ValueSpec)
					if !ok || len(vs.Names) != 1 || len(vs.Values) != 1 {
						continue
					}
					cl, ok := vs.Values[0].(*ast.CompositeLit)
					if !ok {
						continue
					}
					switch vs.Names[0].Name {
					case "opcodeInfoTable":
						for _, el := range cl.Elts {
							kv, ok := el.(*ast.KeyValueExpr)
							if !ok {
								c.Fatalf("opcodeInfoTable: unkeyed element")
								continue
							}
							k, ok := constKey(p, kv.Key)
							if !ok {
								c.Fatalf("opcodeInfoTable: non-constant key")
								continue
							}
							v, ok := kv.Value.(*ast.CompositeLit)
							if !ok {
								continue
							}
							var oi opInfo
							for i, fe := range v.Elts {
								name := ""
								val := fe
								if fkv, ok := fe.(*ast.KeyValueExpr); ok {
									name = types.ExprString(fkv.Key)
									val = fkv.Value
								} else {
									name = []string{"Name", "Category", "IsTerminator"}[min(i, 2)]
								}
								switch name {
								case "Name":
									if tv, ok := p.TypesInfo.Types[val]; ok && tv.Value != nil {
										oi.name = constant.StringVal(tv.Value)
									}
								case "Category":
									oi.category = types.ExprString(val)
								case "IsTerminator":
									if tv, ok := p.TypesInfo.Types[val]; ok && tv.Value != nil {
										oi.terminator = constant.BoolVal(tv.Value)
									}
								}
							}
							t.info[k] = oi
						}
					case "zeta":
						for _, el := range cl.Elts {
							if kv, ok := el.(*ast.KeyValueExpr); ok {
								if k, ok := constKey(p, kv.Key); ok {
									t.zeta[k] = true
								}
							}
						}
					case "execInstructions":
						if at, ok := p.TypesInfo.TypeOf(cl).Underlying().(*types.Array); ok {
							t.legacyLen = at.Len()
						}
						for _, el := range cl.Elts {
							kv, ok := el.(*ast.KeyValueExpr)
							if !ok {
								c.Fatalf("execInstructions: unkeyed element")
								continue
							}
							if k, ok := constKey(p, kv.Key); ok {
								t.legacy[k] = funcIdent(p, kv.Value)
							}
						}
					}
				}
			case *ast.FuncDecl:
				if d.Name.Name != "instrMetaExecForOpcode" || d.Body == nil {
					continue
				}
				ast.Inspect(d.Body, func(n ast.Node) bool {
					cc, ok := n.(*ast.CaseClause)
					if !ok {
						return true
					}
					var ret *types.Func
					for _, st := range cc.Body {
						if r, ok := st.(*ast.ReturnStmt); ok && len(r.Results) == 1 {
							ret = funcIdent(p, r.Results[0])
						}
					}
					if cc.List == nil {
						t.metaDflt = ret
						return true
					}
					for _, e := range cc.List {
						if k, ok := constKey(p, e); ok {
							t.meta[k] = ret
						}
					}
					return true
				})
			}
		}
	}
	return t
}
