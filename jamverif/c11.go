package main

import (
	"fmt"
	"go/ast"
	"go/token"
	"go/types"
	"os"
	"sort"
	"strings"

	"golang.org/x/tools/go/packages"
	"golang.org/x/tools/go/ssa"
)

const typesPkg = "internal/types"

// codecMethods returns the Encode / Decode methods of package rel keyed by receiver type name.
func (c *Ctx) codecMethods(rel string) (enc, dec map[string]*ssa.Function) {
	enc, dec = map[string]*ssa.Function{}, map[string]*ssa.Function{}
	for _, f := range c.SrcFuncs(rel) {
		if f.Signature.Recv() == nil || f.Parent() != nil {
			continue
		}
		n := namedOf(derefType(f.Signature.Recv().Type()))
		if n == nil || f.Signature.Params().Len() != 1 {
			continue
		}
		pt := f.Signature.Params().At(0).Type()
		switch {
		case f.Name() == "Encode" && typeIs(derefType(pt), modPath+"/"+typesPkg, "Encoder"):
			enc[n.Obj().Name()] = f
		case f.Name() == "Decode" && typeIs(derefType(pt), modPath+"/"+typesPkg, "Decoder"):
			dec[n.Obj().Name()] = f
		}
	}
	return
}

func checkC11(c *Ctx) (string, []string) {
	enc, dec := c.codecMethods(typesPkg)
	if os.Getenv("JAMVERIF_DUMP") != "" {
		var names []string
		for n := range enc {
			names = append(names, n)
		}
		sort.Strings(names)
		for _, n := range names {
			for _, f := range []*ssa.Function{enc[n], dec[n]} {
				if f == nil {
					fmt.Printf("MISSING sibling for %s\n", n)
					continue
				}
				fmt.Printf("== %s\n", relName(f.String()))
				for _, b := range f.Blocks {
					for _, in := range b.Instrs {
						ci, ok := in.(ssa.CallInstruction)
						if !ok {
							continue
						}
						cc := ci.Common()
						name := ""
						if cc.IsInvoke() {
							name = "invoke " + cc.Method.Name()
						} else if sc := cc.StaticCallee(); sc != nil {
							name = relName(sc.String())
						} else if bi, ok := cc.Value.(*ssa.Builtin); ok {
							name = bi.Name()
						} else {
							name = "dyn"
						}
						if strings.Contains(name, "cLog") || strings.HasPrefix(name, "fmt.") || strings.HasPrefix(name, "errors.") {
							continue
						}
						var args []string
						for _, a := range cc.Args {
							args = append(args, exprStr(a, shapeOpts))
						}
						fmt.Printf("  b%d %s(%s)\n", b.Index, name, strings.Join(args, ", "))
					}
				}
			}
		}
	}
	_ = types.Typ
	cs := codecSide{pkgPath: modPath + "/" + typesPkg}
	cs.leaves = cs.computeLeaves(enc)
	if os.Getenv("JAMVERIF_DUMP") != "" {
		for k, v := range cs.leaves {
			fmt.Printf("LEAF %s = %v\n", k, v)
		}
	}
	csE, csD := cs, cs
	csE.shapeFacts = true
	c.Rule("C11.wire-agreement", "for every type with Encode(*Encoder) and Decode(*Decoder): the finite automata of wire events (compact natural, fixed-width bytes, single byte, variable raw bytes, nested codec of type T — each attributed to the receiver field it carries), obtained by projecting each method's control-flow graph onto its wire events with error returns pruned, have equal minimal DFAs", 120)
	var names []string
	for n := range enc {
		names = append(names, n)
	}
	sort.Strings(names)
	for _, n := range names {
		fe, fd := enc[n], dec[n]
		key := typesPkg + "." + n
		if fd == nil {
			c.Note("type %s has Encode but no Decode", n)
			continue
		}
		ae, ad := csE.automaton(fe), csD.automaton(fd)
		lab := func(e *wireEvent) string { return e.label(true) }
		de, dd := ae.determinize(lab), ad.determinize(lab)
		if de.canonical() == dd.canonical() {
			c.OK("C11.wire-agreement", key, fe.Pos(), "Encode and Decode accept the same event language: %s", de.canonical())
		} else {
			for _, dw := range distinguishAll(de, dd, 6) {
				side := "Decode"
				if dw.inA {
					side = "Encode"
				}
				c.Bad("C11.wire-agreement", key+" · ["+strings.Join(dw.word, " ")+"] complete only for "+side, fd.Pos(), "wire sequences differ: the event sequence [%s] is a complete message only for %s; Encode events: %s ;; Decode events: %s", strings.Join(dw.word, " "), side, ae.eventList(true), ad.eventList(true))
			}
		}
	}
	// a decode target reused across loop iterations must be overwritten completely by its Decode
	c.Rule("C11.fresh-decode-target", "in the protocol decoders (internal/types), a value-method Decode call that sits in a loop and whose receiver is a variable created outside that loop decodes a type whose Decode stores the whole receiver on every successful path — otherwise an element can inherit parts of the previous one and the decoded value re-encodes differently", 10)
	for _, f0 := range c.SrcFuncs("internal/types") {
		for _, f := range withClosures(f0) {
			allInstrs(f, func(in ssa.Instruction) {
				call, ok := in.(*ssa.Call)
				if !ok || len(call.Call.Args) < 2 {
					return
				}
				sc := call.Call.StaticCallee()
				if sc == nil || sc.Name() != "Decode" || sc.Signature.Recv() == nil || !inModule(sc) {
					return
				}
				tgt := call.Call.Args[0]
				root := tgt
				for {
					if fa, isFA := root.(*ssa.FieldAddr); isFA {
						root = fa.X
						continue
					}
					break
				}
				a, isAlloc := root.(*ssa.Alloc)
				if !isAlloc {
					return // elements of the slice being filled, fields of the receiver: not a reused temporary
				}
				if h, _ := natLoop(call.Block()); h == nil {
					return
				}
				_ = a
				key := funcKey(f) + " · " + abbr(typeStr(tgt.Type())) + ".Decode into " + abbr(exprStr(tgt, shapeOpts))
				checkFreshDecodeTarget(c, "C11.fresh-decode-target", key, call, tgt)
			})
		}
	}
	c.Rule("C11.count-agreement", "for every type, each loop that moves wire data has the same trip-count source in Encode and Decode: either the count is carried by a natural written/read immediately for that field (length-prefixed), or it is the same protocol parameter on both sides (Encode checks len == parameter, Decode loops to the parameter)", 40)
	if os.Getenv("JAMVERIF_DUMP") != "" {
		for _, n := range names {
			if dec[n] == nil {
				continue
			}
			fmt.Printf("COUNTS %s enc=%v dec=%v\n", n, csE.loopCounts(enc[n], false), csD.loopCounts(dec[n], true))
		}
	}
	for _, n := range names {
		fe, fd := enc[n], dec[n]
		if fd == nil {
			continue
		}
		ce, cd := csE.loopCounts(fe, false), csD.loopCounts(fd, true)
		if len(ce) == 0 && len(cd) == 0 {
			continue
		}
		key := typesPkg + "." + n
		fields := map[string]bool{}
		for k := range ce {
			fields[k] = true
		}
		for k := range cd {
			fields[k] = true
		}
		for fld := range fields {
			k2 := key + " · loop over ." + fld
			a, b := ce[fld], cd[fld]
			switch {
			case a == b && a != "" && !strings.Contains(a, "?"):
				c.OK("C11.count-agreement", k2, fd.Pos(), "both sides: %s", a)
			case a == "len-unchecked" && strings.HasPrefix(b, "fixed:"):
				c.OK("C11.count-agreement", k2, fd.Pos(), "Decode reads %s elements; Encode writes len(x) elements without checking it (round trip holds for values that respect the fixed-length invariant)", b)
				c.Note("%s.Encode does not check its fixed length (%s) before writing", n, b)
			case strings.Contains(a, "?") || strings.Contains(b, "?") || a == "" || b == "":
				c.Unknown("C11.count-agreement", k2, fd.Pos(), "trip-count source not recognised (Encode %q, Decode %q)", a, b)
			default:
				c.Bad("C11.count-agreement", k2, fd.Pos(), "Encode's loop count is %s but Decode's is %s: the two sides move a different number of elements", a, b)
			}
		}
	}

	c.Rule("C11.map-order", "every range over a map in internal/types (Encode methods and codec helpers) has an order-independent body or its product is sorted by a total order before any other use", 6)
	ms := &moScope{c: c, rule: "C11.map-order", reviewed: map[string]string{}}
	nloops := ms.checkMapOrder([]string{typesPkg}, func(f string) bool { return !strings.Contains(f, "json") })
	ms.checkUnorderedCallers()
	c.extra["map_ranges_examined"] = nloops
	c11Fuzz(c, cs)
	c11Comparators(c)
	c11Pool(c)
	c11FreshPointers(c, dec)
	return "Codec round-trip mechanisms decided statically: (1) wire agreement — for each of the types with both methods the control-flow graph of Encode and of Decode is projected onto wire events (compact natural, n fixed bytes, one byte, variable raw bytes, nested codec; chains of leaf types spliced so inline and delegated forms compare equal; each event attributed to the receiver field it carries) and the two minimal DFAs must be equal, with a light path-sensitivity on repeated receiver conditions; (2) every map range in the codec is sorted before use and every sort comparator in the codec package reads every field of the key type (total order); (3) pooled encoders are returned on every path, not used after return, do not escape, and Encode/EncodeMany hand out a copy of the pooled buffer; no Encodable.Encode resets the shared buffer; (4) a pointer stored into a decoded element inside a loop comes from an allocation made in the same iteration.",
		[]string{"go/ssa, go/types; event vocabulary enumerated from the 256 methods (closed: EncodeLength/Integer, buf.Write/WriteByte, EncodeUintWithLength, nested Encode; DecodeLength/Integer, binary.Read, buf.Read/ReadByte, ReadPointerFlag, nested Decode); any other call receiving the encoder/decoder is an unknown event and fails the comparison", "loop trip counts are not part of the language (a separate count rule is not claimed)", "value-level equality (nil vs empty, fixed-length invariants) not decided"}
}

// c11Comparators: every sort comparator in the codec package reads every
// field of the element type (so equal-by-comparator keys are identical keys
// and the unstable sort of a map's keys is deterministic).
func c11Comparators(c *Ctx) {
	c.Rule("C11.comparator-total", "each sort.Slice/SliceStable comparator used in internal/types (non-JSON files) reads every field of the element type of the sorted slice", 6)
	for _, f := range c.SrcFuncs(typesPkg) {
		if strings.Contains(c.pos(f.Pos()), "json") {
			continue
		}
		allInstrs(f, func(in ssa.Instruction) {
			call, ok := in.(*ssa.Call)
			if !ok {
				return
			}
			sc := call.Call.StaticCallee()
			if sc == nil || !(sc.String() == "sort.Slice" || sc.String() == "sort.SliceStable") {
				return
			}
			sl := stripConv(call.Call.Args[0])
			st, ok := sl.Type().Underlying().(*types.Slice)
			if !ok {
				return
			}
			key := funcKey(f) + " · sort of " + typeStr(st.Elem())
			mc, ok := call.Call.Args[1].(*ssa.MakeClosure)
			if !ok {
				c.Unknown("C11.comparator-total", key, call.Pos(), "comparator is not a function literal")
				return
			}
			cmp := mc.Fn.(*ssa.Function)
			es, isStruct := st.Elem().Underlying().(*types.Struct)
			if !isStruct {
				c.OK("C11.comparator-total", key, call.Pos(), "element type has no fields; comparator compares whole elements")
				return
			}
			read := map[string]bool{}
			allInstrs(cmp, func(ci ssa.Instruction) {
				switch x := ci.(type) {
				case *ssa.FieldAddr:
					if types.Identical(derefType(x.X.Type()), st.Elem()) {
						read[structField(x.X.Type(), x.Field).Name()] = true
					}
				case *ssa.Field:
					if types.Identical(x.X.Type(), st.Elem()) {
						read[structField(x.X.Type(), x.Field).Name()] = true
					}
				}
			})
			var missing []string
			for i := 0; i < es.NumFields(); i++ {
				if !read[es.Field(i).Name()] {
					missing = append(missing, es.Field(i).Name())
				}
			}
			if len(missing) == 0 {
				c.OK("C11.comparator-total", key, call.Pos(), "comparator reads all %d fields", es.NumFields())
			} else {
				c.Bad("C11.comparator-total", key, call.Pos(), "comparator never reads field(s) %s of %s: elements that differ only there are emitted in map-iteration order", strings.Join(missing, ", "), typeStr(st.Elem()))
			}
		})
	}
}

// c11Pool: pooled encoder discipline over the whole module.
func c11Pool(c *Ctx) {
	c.Rule("C11.pool", "every types.GetEncoder() result is handed back with PutEncoder on every path (deferred, or explicit before each return), is not used after an explicit PutEncoder, and does not escape (stored, returned, captured by a goroutine); Encoder.Encode/EncodeMany return bytes.Clone of the pooled buffer; no Encode(e *Encoder) method calls e.Encode/e.EncodeMany (which reset the shared buffer)", 30)
	get := c.Obj(typesPkg, "GetEncoder")
	put := c.Obj(typesPkg, "PutEncoder")
	if get == nil || put == nil {
		return
	}
	c.SSA()
	for _, p := range c.Pkgs {
		if !strings.HasPrefix(p.PkgPath, modPath) {
			continue
		}
		rel := strings.TrimPrefix(strings.TrimPrefix(p.PkgPath, modPath), "/")
		for _, f0 := range c.SrcFuncs(rel) {
			for _, f := range withClosures(f0) {
				for _, gc := range callsIn(f, get) {
					ev, ok := gc.(*ssa.Call)
					if !ok {
						continue
					}
					var e ssa.Value = ev
					key := funcKey(f) + " · GetEncoder"
					// the value may pass through a type assertion-free path only
					isPut := func(in ssa.Instruction) bool {
						ci, ok := in.(ssa.CallInstruction)
						return ok && isCallTo(in, put) && len(ci.Common().Args) == 1 && ci.Common().Args[0] == e
					}
					deferred := false
					var explicit []ssa.Instruction
					allInstrs(f, func(in ssa.Instruction) {
						if isPut(in) {
							if _, ok := in.(*ssa.Defer); ok {
								deferred = true
							} else {
								explicit = append(explicit, in)
							}
						}
					})
					bad := ""
					if !deferred {
						if _, leak := findPath(pathQuery{start: ev, target: isReturn, blocker: isPut}); leak {
							bad = "a path from GetEncoder to a return does not pass PutEncoder"
						}
					}
					for _, pi := range explicit {
						if use, after := findPath(pathQuery{start: pi, target: func(in ssa.Instruction) bool {
							if in == ssa.Instruction(ev) {
								return false
							}
							for _, op := range in.Operands(nil) {
								if *op == e {
									return true
								}
							}
							return false
						}, blocker: func(in ssa.Instruction) bool { return in == ssa.Instruction(ev) }}); after {
							bad = "encoder used after PutEncoder at " + c.pos(use.Pos())
						}
					}
					if refs := ev.Referrers(); refs != nil {
						for _, r := range *refs {
							switch x := r.(type) {
							case *ssa.Store:
								if x.Val == e {
									if _, local := x.Addr.(*ssa.Alloc); !local {
										bad = "pooled encoder stored into " + exprStr(x.Addr, shapeOpts)
									}
								}
							case *ssa.Return:
								bad = "pooled encoder returned to the caller"
							case *ssa.MakeClosure:
								// captured: only acceptable for deferred closures in the same function
								if mrefs := x.Referrers(); mrefs != nil {
									for _, mr := range *mrefs {
										if _, isGo := mr.(*ssa.Go); isGo {
											bad = "pooled encoder captured by a goroutine"
										}
									}
								}
							case *ssa.Go:
								bad = "pooled encoder passed to a goroutine"
							}
						}
					}
					if bad == "" {
						c.OK("C11.pool", key, ev.Pos(), "returned to the pool on every path (deferred=%v, explicit=%d), no use after return, no escape", deferred, len(explicit))
					} else {
						c.Bad("C11.pool", key, ev.Pos(), "%s", bad)
					}
				}
			}
		}
	}
	for _, m := range []string{"Encode", "EncodeMany"} {
		f := c.Fn(typesPkg, "Encoder."+m)
		if f == nil {
			continue
		}
		rs := returnShapes(f)
		ok := false
		for k, v := range rs {
			if k == "ret#0" {
				ok = true
				for _, s := range v {
					if s != "nil" && !strings.HasPrefix(s, "bytes.Clone(") && !clonesViaHelper(c, f, s) {
						ok = false
					}
				}
			}
		}
		c.Check(ok, "C11.pool", funcKey(f)+" · result", f.Pos(), "returns nil or bytes.Clone of the buffer", fmt.Sprintf("returns a slice that aliases the pooled buffer: %v", rs["ret#0"]))
	}
	// the shared buffer is emptied before anything is written (a pooled encoder may hold the partial output of an earlier failed Encode)
	for _, m := range []string{"Encode", "EncodeMany"} {
		f := c.Fn(typesPkg, "Encoder."+m)
		if f == nil {
			continue
		}
		var reset ssa.Instruction
		allInstrs(f, func(in ssa.Instruction) {
			if ci, ok := in.(ssa.CallInstruction); ok && reset == nil {
				if sc := calleeFunc(ci); sc != nil && sc.String() == "(*bytes.Buffer).Reset" {
					reset = in
				}
			}
		})
		ok := reset != nil
		if ok {
			// no path from entry reaches encodeStruct (the writer) without passing the reset
			_, skip := findPath(pathQuery{fn: f, target: func(in ssa.Instruction) bool {
				sc := calleeFunc2(in)
				return sc != nil && sc.Name() == "encodeStruct"
			}, blocker: func(in ssa.Instruction) bool { return in == reset }})
			ok = !skip
		}
		c.Check(ok, "C11.pool", funcKey(f)+" · reset first", f.Pos(), "buffer reset before the first write on every path", "the buffer is not reset before encoding starts: bytes left by an earlier failed Encode on a pooled encoder are prepended to the next encoding")
	}
	encM := c.Obj(typesPkg, "Encoder.Encode")
	encMany := c.Obj(typesPkg, "Encoder.EncodeMany")
	enc, _ := c.codecMethods(typesPkg)
	n := 0
	for name, f := range enc {
		for _, cl := range withClosures(f) {
			for _, ci := range callsIn(cl, encM, encMany) {
				n++
				c.Bad("C11.pool", typesPkg+"."+name+".Encode · resets shared buffer", ci.Pos(), "an Encodable's Encode method calls Encoder.Encode/EncodeMany, which resets the buffer its caller is writing to")
			}
		}
	}
	if n == 0 {
		c.OK("C11.pool", typesPkg+" · no nested reset", 0, "none of the %d Encode methods calls Encoder.Encode/EncodeMany", len(enc))
	}
}

// loopHeaders returns, per block, the set of natural-loop headers whose loop contains it.
func loopHeaders(f *ssa.Function) map[*ssa.BasicBlock]map[*ssa.BasicBlock]bool {
	out := map[*ssa.BasicBlock]map[*ssa.BasicBlock]bool{}
	for _, b := range f.Blocks {
		out[b] = map[*ssa.BasicBlock]bool{}
	}
	for _, b := range f.Blocks {
		for _, h := range b.Succs {
			if !h.Dominates(b) {
				continue
			}
			// natural loop of back edge b -> h
			body := map[*ssa.BasicBlock]bool{h: true}
			stack := []*ssa.BasicBlock{b}
			for len(stack) > 0 {
				x := stack[len(stack)-1]
				stack = stack[:len(stack)-1]
				if body[x] {
					continue
				}
				body[x] = true
				stack = append(stack, x.Preds...)
			}
			for x := range body {
				out[x][h] = true
			}
		}
	}
	return out
}

// c11FreshPointers: decoded pointers are fresh per element.
func c11FreshPointers(c *Ctx, dec map[string]*ssa.Function) {
	c.Rule("C11.fresh-pointer", "in every Decode method, an address stored into a slice element, map entry or appended list inside a loop comes from an allocation made in the same loop iteration (no two decoded elements alias one scratch variable)", 1)
	n := 0
	for name, f := range dec {
		lh := loopHeaders(f)
		allInstrs(f, func(in ssa.Instruction) {
			var val ssa.Value
			switch x := in.(type) {
			case *ssa.Store:
				if _, isLocalCell := x.Addr.(*ssa.Alloc); isLocalCell {
					// storing into a local variable; followed when that variable is itself stored
					return
				}
				val = x.Val
			case *ssa.MapUpdate:
				val = x.Value
			default:
				return
			}
			a, ok := stripConv(val).(*ssa.Alloc)
			if !ok {
				return
			}
			if len(lh[in.Block()]) == 0 {
				return
			}
			n++
			key := typesPkg + "." + name + ".Decode · &" + typeStr(derefType(a.Type()))
			okk := true
			for h := range lh[in.Block()] {
				if !lh[a.Block()][h] {
					okk = false
				}
			}
			if okk {
				c.OK("C11.fresh-pointer", key, in.Pos(), "allocation is inside the loop that stores its address")
			} else {
				c.Bad("C11.fresh-pointer", key, in.Pos(), "the address of a variable allocated outside the loop is stored into every element: all decoded elements alias the last value")
			}
		})
	}
	c.extra["pointer_stores_in_loops"] = n
}

const fuzzPkg = "internal/fuzz"

// c11Fuzz: fuzz-protocol message types.
func c11Fuzz(c *Ctx, cs codecSide) {
	c.Rule("C11.fuzz-messages", "fuzz-protocol messages: SetState's Encode/Decode have equal wire automata; every MarshalBinary that delegates to the protocol encoder has an UnmarshalBinary that delegates to the protocol decoder with the identical target type; Message.MarshalBinary and Message.ReadFrom map each message-type constant to the same variant field and reject unknown types", 8)
	enc, dec := c.codecMethods(fuzzPkg)
	csE, csD := cs, cs
	csE.shapeFacts = true
	for n, fe := range enc {
		fd := dec[n]
		key := fuzzPkg + "." + n
		if fd == nil {
			c.Bad("C11.fuzz-messages", key, fe.Pos(), "Encode without Decode")
			continue
		}
		lab := func(e *wireEvent) string { return e.label(true) }
		ae, ad := csE.automaton(fe), csD.automaton(fd)
		de, dd := ae.determinize(lab), ad.determinize(lab)
		if de.canonical() == dd.canonical() {
			c.OK("C11.fuzz-messages", key, fe.Pos(), "equal wire automata: %s", de.canonical())
		} else {
			for _, dw := range distinguishAll(de, dd, 6) {
				side := "Decode"
				if dw.inA {
					side = "Encode"
				}
				c.Bad("C11.fuzz-messages", key+" · ["+strings.Join(dw.word, " ")+"] complete only for "+side, fd.Pos(), "Encode events: %s ;; Decode events: %s", ae.eventList(true), ad.eventList(true))
			}
		}
	}
	// delegating wrappers
	encM := c.Obj(typesPkg, "Encoder.Encode")
	decM := c.Obj(typesPkg, "Decoder.Decode")
	mar, unm := map[string]*ssa.Function{}, map[string]*ssa.Function{}
	for _, f := range c.SrcFuncs(fuzzPkg) {
		if f.Signature.Recv() == nil || f.Parent() != nil {
			continue
		}
		n := namedOf(f.Signature.Recv().Type())
		if n == nil {
			continue
		}
		switch f.Name() {
		case "MarshalBinary":
			mar[n.Obj().Name()] = f
		case "UnmarshalBinary":
			unm[n.Obj().Name()] = f
		}
	}
	target := func(f *ssa.Function, m types.Object, argIdx int) (string, bool) {
		for _, ci := range callsIn(f, m) {
			a := ci.Common().Args[argIdx]
			if mi, ok := a.(*ssa.MakeInterface); ok {
				return typeStr(mi.X.Type()), true
			}
			return typeStr(a.Type()), true
		}
		return "", false
	}
	for n, fm := range mar {
		fu := unm[n]
		key := fuzzPkg + "." + n + " · Marshal/Unmarshal"
		if fu == nil {
			if n == "Message" {
				continue // framed by ReadFrom, checked below
			}
			c.Bad("C11.fuzz-messages", key, fm.Pos(), "MarshalBinary without UnmarshalBinary")
			continue
		}
		te, okE := target(fm, encM, 1)
		td, okD := target(fu, decM, 2)
		switch {
		case okE && okD && te == td:
			c.OK("C11.fuzz-messages", key, fm.Pos(), "both delegate to the protocol codec of %s", te)
		case okE != okD || te != td:
			c.Bad("C11.fuzz-messages", key, fu.Pos(), "MarshalBinary encodes %q but UnmarshalBinary decodes %q", te, td)
		default:
			c.Note("fuzz type %s has a hand-written binary form (not compared structurally)", n)
		}
	}
	// Message type tables
	tabM, defM := c.switchFieldTable(fuzzPkg, "Message.MarshalBinary")
	tabR, defR := c.switchFieldTable(fuzzPkg, "Message.ReadFrom")
	if tabM == nil || tabR == nil {
		c.Unknown("C11.fuzz-messages", fuzzPkg+".Message · type tables", 0, "could not extract the message-type switch of MarshalBinary/ReadFrom")
		return
	}
	keys := map[string]bool{}
	for k := range tabM {
		keys[k] = true
	}
	for k := range tabR {
		keys[k] = true
	}
	var ks []string
	for k := range keys {
		ks = append(ks, k)
	}
	sort.Strings(ks)
	for _, k := range ks {
		c.Check(tabM[k] == tabR[k] && tabM[k] != "", "C11.fuzz-messages", fuzzPkg+".Message · type "+k, 0,
			"type "+k+" ↔ field "+tabM[k]+" in both directions", fmt.Sprintf("message type %s is marshalled from field %q but read into field %q", k, tabM[k], tabR[k]))
	}
	c.Check(defM && defR, "C11.fuzz-messages", fuzzPkg+".Message · unknown type", 0, "both default arms return an error", "a default arm of the message-type switch does not return an error")

	c.Rule("C11.frame-consumption", "the stream handed to Message.ReadFrom flows only into consumers that take an exact number of bytes from it (binary.Read, io.ReadFull, io.ReadAtLeast, io.CopyN) or into io.LimitReader, whose result may be drained freely; a buffering wrapper or an until-EOF reader applied to the stream itself takes bytes of the next frame, so decoding no longer consumes exactly the encoded bytes", 3)
	if f := c.Fn(fuzzPkg, "Message.ReadFrom"); f != nil && len(f.Params) == 2 {
		exactStreamConsumers(c, "C11.frame-consumption", f, f.Params[1])
	}
}

// exactStreamConsumers follows the stream value through interface conversions,
// phis and module helpers and classifies every call it reaches.
func exactStreamConsumers(c *Ctx, rule string, f0 *ssa.Function, seed ssa.Value) {
	type item struct {
		f *ssa.Function
		v ssa.Value
	}
	seen := map[ssa.Value]bool{}
	work := []item{{f0, seed}}
	for len(work) > 0 {
		it := work[len(work)-1]
		work = work[:len(work)-1]
		if seen[it.v] || it.v.Referrers() == nil {
			continue
		}
		seen[it.v] = true
		for _, r := range *it.v.Referrers() {
			switch x := r.(type) {
			case *ssa.MakeInterface, *ssa.ChangeInterface, *ssa.ChangeType, *ssa.Phi, *ssa.TypeAssert:
				work = append(work, item{it.f, x.(ssa.Value)})
			case *ssa.Store:
				// reader = wrap(reader): the parameter cell
				if a, ok := x.Addr.(*ssa.Alloc); ok && x.Val == it.v {
					for _, r2 := range *a.Referrers() {
						if u, ok := r2.(*ssa.UnOp); ok && u.Op == token.MUL {
							work = append(work, item{it.f, u})
						}
					}
				} else if x.Val == it.v {
					c.Bad(rule, funcKey(it.f)+" · stored", x.Pos(), "the stream is stored into %s: its later consumers cannot be enumerated", exprStr(x.Addr, shapeOpts))
				}
			case ssa.CallInstruction:
				cc := x.Common()
				name := ""
				if cc.IsInvoke() {
					name = "io.Reader." + cc.Method.Name()
				} else if sc := cc.StaticCallee(); sc != nil {
					name = sc.String()
				} else {
					c.Unknown(rule, funcKey(it.f)+" · dynamic call", x.Pos(), "cannot resolve the callee the stream is passed to")
					continue
				}
				key := funcKey(it.f) + " · " + name
				switch name {
				case "encoding/binary.Read", "io.ReadFull", "io.ReadAtLeast", "io.CopyN":
					c.OK(rule, key, x.Pos(), "takes an exact byte count from the stream")
				case "io.LimitReader":
					c.OK(rule, key, x.Pos(), "bounded view: draining it takes at most the limit from the stream")
				case "io.Reader.Read":
					c.OK(rule, key, x.Pos(), "a single Read takes at most len(p) bytes")
				case "bufio.NewReader", "bufio.NewReaderSize", "bufio.NewScanner", "io.ReadAll", "io.Copy", "io.TeeReader", "io.MultiReader", "(*bytes.Buffer).ReadFrom":
					c.Bad(rule, key, x.Pos(), "%s applied to the stream itself reads ahead / until EOF: bytes of the following frame are taken and lost, so decoding does not consume exactly the encoded bytes", name)
				default:
					sc := cc.StaticCallee()
					if sc != nil && len(sc.Blocks) > 0 && sc.Pkg != nil && strings.HasPrefix(sc.Pkg.Pkg.Path(), modPath) {
						for ai, a := range cc.Args {
							if a == it.v && ai < len(sc.Params) {
								work = append(work, item{sc, sc.Params[ai]})
							}
						}
						continue
					}
					c.Unknown(rule, key, x.Pos(), "the stream is passed to %s, whose consumption is not in the rule's table", name)
				}
			}
		}
	}
}

// switchFieldTable: for the method's `switch recv.Type`, map each case constant
// (by value) to the receiver field selected in the clause body; defErr reports
// whether the default clause returns a non-nil last result.
func (c *Ctx) switchFieldTable(rel, name string) (tab map[string]string, defErr bool) {
	fd, p := c.FuncDecl(rel, name)
	if fd == nil {
		return nil, false
	}
	tab, defErr = switchFieldTableIn(p, fd)
	if tab != nil {
		return
	}
	// the dispatch may live in a helper of the same package that the method calls
	var callees []*ast.FuncDecl
	ast.Inspect(fd.Body, func(n ast.Node) bool {
		call, ok := n.(*ast.CallExpr)
		if !ok {
			return true
		}
		var id *ast.Ident
		switch f := call.Fun.(type) {
		case *ast.Ident:
			id = f
		case *ast.SelectorExpr:
			id = f.Sel
		}
		if id == nil {
			return true
		}
		if fn, ok := p.TypesInfo.Uses[id].(*types.Func); ok && fn.Pkg() == p.Types {
			for _, file := range p.Syntax {
				for _, d := range file.Decls {
					if hd, ok := d.(*ast.FuncDecl); ok && p.TypesInfo.Defs[hd.Name] == fn && hd.Body != nil {
						callees = append(callees, hd)
					}
				}
			}
		}
		return true
	})
	for _, hd := range callees {
		if t, d := switchFieldTableIn(p, hd); t != nil {
			return t, d
		}
	}
	return nil, false
}

// switchFieldTableIn: the `switch recv.Type` of one function body. An unknown
// type is rejected either by a default clause returning a non-nil last result
// or, when there is no default clause, by the statement following the switch
// being such a return.
func switchFieldTableIn(p *packages.Package, fd *ast.FuncDecl) (tab map[string]string, defErr bool) {
	nonNilReturn := func(st ast.Stmt) bool {
		r, ok := st.(*ast.ReturnStmt)
		if !ok || len(r.Results) == 0 {
			return false
		}
		last := r.Results[len(r.Results)-1]
		id, isID := last.(*ast.Ident)
		return !isID || id.Name != "nil"
	}
	var visitList func(list []ast.Stmt)
	visitList = func(list []ast.Stmt) {
		for k, st := range list {
			sw, ok := st.(*ast.SwitchStmt)
			if !ok || tab != nil {
				if blk, isB := st.(*ast.BlockStmt); isB {
					visitList(blk.List)
				}
				continue
			}
			sel, ok := sw.Tag.(*ast.SelectorExpr)
			if !ok || sel.Sel.Name != "Type" {
				continue
			}
			recv, ok := sel.X.(*ast.Ident)
			if !ok {
				continue
			}
			tab = map[string]string{}
			hasDefault := false
			for _, cs := range sw.Body.List {
				cl := cs.(*ast.CaseClause)
				field := ""
				for _, b := range cl.Body {
					ast.Inspect(b, func(m ast.Node) bool {
						if se, ok := m.(*ast.SelectorExpr); ok && field == "" {
							if id, ok := se.X.(*ast.Ident); ok && p.TypesInfo.Uses[id] == p.TypesInfo.Uses[recv] && se.Sel.Name != "Type" {
								field = se.Sel.Name
							}
						}
						return true
					})
				}
				if cl.List == nil {
					hasDefault = true
					for _, b := range cl.Body {
						if nonNilReturn(b) {
							defErr = true
						}
					}
					continue
				}
				for _, e := range cl.List {
					if tv, ok := p.TypesInfo.Types[e]; ok && tv.Value != nil {
						tab[tv.Value.ExactString()] = field
					}
				}
			}
			if !hasDefault && k+1 < len(list) && nonNilReturn(list[k+1]) {
				// every case must itself return, otherwise known types would fall into the error
				allReturn := true
				for _, cs := range sw.Body.List {
					cl := cs.(*ast.CaseClause)
					if len(cl.Body) == 0 {
						allReturn = false
						continue
					}
					if _, isR := cl.Body[len(cl.Body)-1].(*ast.ReturnStmt); !isR {
						allReturn = false
					}
				}
				defErr = allReturn
			}
		}
	}
	visitList(fd.Body.List)
	return
}

// clonesViaHelper: the returned shape is a call of a method of the same
// package all of whose non-nil results are bytes.Clone(...) (a wrapper around the copy).
func clonesViaHelper(c *Ctx, f *ssa.Function, shape string) bool {
	found := false
	allInstrs(f, func(in ssa.Instruction) {
		call, ok := in.(*ssa.Call)
		if !ok {
			return
		}
		g := call.Call.StaticCallee()
		if g == nil || g.Pkg != f.Pkg || !strings.HasPrefix(shape, relName(g.String())+"(") {
			return
		}
		all := true
		n := 0
		for k, v := range returnShapes(g) {
			if k != "ret" && k != "ret#0" {
				continue
			}
			for _, s := range v {
				n++
				if s != "nil" && !strings.HasPrefix(s, "bytes.Clone(") {
					all = false
				}
			}
		}
		if all && n > 0 {
			found = true
		}
	})
	return found
}
