package main

import (
	"fmt"
	"os"
	"strings"

	"golang.org/x/tools/go/ssa"
)

const statPkg = "internal/statistics"

func checkC34(c *Ctx) (string, []string) {
	dump := os.Getenv("JAMVERIF_DUMP") != ""
	setters := func(n string) bool {
		return strings.Contains(n, ").Set") || strings.Contains(n, "statistics.Update") || strings.Contains(n, "statistics.Calculate")
	}
	names := []string{"UpdateBlockStatistics", "UpdateTicketStatistics", "UpdatePreimageStatistics", "UpdatePreimageOctetStatistics",
		"UpdateReportStatistics", "UpdateAvailabilityStatistics", "UpdateCurrentStatistics", "UpdateValidatorActivityStatistics",
		"UpdateCoreActivityStatistics", "UpdateServiceActivityStatistics"}
	fn := map[string]*ssa.Function{}
	for _, n := range append(names, "GetEpochIndex", "CalculateWorkResults", "CalculateServiceResults", "CalculateAccumulationStatistics") {
		fn[n] = c.Fn(statPkg, n)
	}
	if len(c.fatal) > 0 {
		return "", nil
	}
	if dump {
		for _, n := range names {
			for _, e := range effectShapes(fn[n], setters) {
				fmt.Printf("EFFECT %s | %s\n", n, e)
			}
		}
		dumpShapes("core literal", literalStores(fn["UpdateCoreActivityStatistics"], "types.CoreActivityRecord"))
		dumpShapes("svc literal", literalStores(fn["UpdateServiceActivityStatistics"], "types.ServiceActivityRecord"))
		for _, n := range []string{"GetEpochIndex", "CalculateWorkResults", "CalculateServiceResults", "CalculateAccumulationStatistics"} {
			dumpShapes(n, returnShapes(fn[n]))
		}
	}
	post := "(*internal/blockchain.ChainState).GetPosteriorStates(internal/blockchain.GetInstance())"
	prior := "(*internal/blockchain.ChainState).GetPriorStates(internal/blockchain.GetInstance())"
	inter := "(*internal/blockchain.ChainState).GetIntermediateStates(internal/blockchain.GetInstance())"
	author := "(*internal/blockchain.ChainState).GetLatestBlock(internal/blockchain.GetInstance()).Header.AuthorIndex"
	postPi := "cell((*internal/blockchain.PosteriorStates).GetPi(" + post + "))"
	priorPi := "(*internal/blockchain.PriorStates).GetPi(" + prior + ")"

	c.Rule("C34.validator-record", "each per-validator updater has exactly the specified effect: author's Blocks+1, Tickets+|E_T|, PreImages+|E_P|, PreImagesSize+Σ|blob|, every assurer's Assurances+1 indexed by the assurance's validator index, reporters' Guarantees+1 (guarded by membership of the validator's Ed25519 key in the reporters set); no other store", 6)
	eff := func(n string) []string { return effectShapes(fn[n], setters) }
	c.checkEffects("C34.validator-record", "internal/statistics.UpdateBlockStatistics", fn["UpdateBlockStatistics"], eff("UpdateBlockStatistics"),
		[]string{"store &p0.ValsCurr[p1].Blocks ← (1 + p0.ValsCurr[p1].Blocks)"})
	c.checkEffects("C34.validator-record", "internal/statistics.UpdateTicketStatistics", fn["UpdateTicketStatistics"], eff("UpdateTicketStatistics"),
		[]string{"store &p0.ValsCurr[p1].Tickets ← (p0.ValsCurr[p1].Tickets + u32(len(p2)))"})
	c.checkEffects("C34.validator-record", "internal/statistics.UpdatePreimageStatistics", fn["UpdatePreimageStatistics"], eff("UpdatePreimageStatistics"),
		[]string{"store &p0.ValsCurr[p1].PreImages ← (p0.ValsCurr[p1].PreImages + u32(len(p2)))"})
	c.checkEffects("C34.validator-record", "internal/statistics.UpdatePreimageOctetStatistics", fn["UpdatePreimageOctetStatistics"], eff("UpdatePreimageOctetStatistics"),
		[]string{"store &p0.ValsCurr[p1].PreImagesSize ← (p0.ValsCurr[p1].PreImagesSize + u32(len(p2[*].Blob)))"})
	c.checkEffects("C34.validator-record", "internal/statistics.UpdateAvailabilityStatistics", fn["UpdateAvailabilityStatistics"], eff("UpdateAvailabilityStatistics"),
		[]string{"store &p0.ValsCurr[p2[*].ValidatorIndex].Assurances ← (1 + p0.ValsCurr[p2[*].ValidatorIndex].Assurances)"})
	c.checkEffects("C34.validator-record", "internal/statistics.UpdateReportStatistics", fn["UpdateReportStatistics"], eff("UpdateReportStatistics"),
		[]string{"store &p0.ValsCurr[*].Guarantees ← (1 + p0.ValsCurr[*].Guarantees)"})
	// membership guard for the Guarantees store and same index for record and key
	{
		f := fn["UpdateReportStatistics"]
		allInstrs(f, func(in ssa.Instruction) {
			st, ok := in.(*ssa.Store)
			if !ok || rootedInLocal(st.Addr) {
				return
			}
			pass := condEdges(f, func(v ssa.Value) (bool, bool) {
				s := exprStr(v, shapeOpts)
				return s == "makemap[p3[*].Ed25519]#1", true
			})
			okGuard := guardedBy(f, st, pass)
			// record index and key index must be the same loop variable
			sameIdx := false
			if ia := findIndexAddr(st.Addr); ia != nil {
				for _, e := range pass {
					if look := lookupOfCond(e); look != nil {
						if kia := findIndexAddr(look.Index); kia != nil && sameExpr(kia.Index, ia.Index) {
							sameIdx = true
						}
					}
				}
			}
			c.Check(okGuard && sameIdx, "C34.validator-record", "internal/statistics.UpdateReportStatistics · reporter guard", st.Pos(),
				"Guarantees incremented only for validators whose Ed25519 key is in the reporters set (same index for key and record)",
				"Guarantees increment is not guarded by membership of that validator's Ed25519 key in the reporters set")
		})
	}

	c34ReporterKeys(c, fn["UpdateReportStatistics"])

	// the set of signing validators is the guarantee's own: a set filled from a guarantee's signatures is created in the
	// iteration that fills it (inside every loop around the loop over the signatures) — a set carried across
	// guarantees credits validators for reports they did not sign
	{
		f := fn["UpdateReportStatistics"]
		nsets := 0
		for _, g := range withClosuresAndHelpers(f) {
			allInstrs(g, func(in ssa.Instruction) {
				mu, ok := in.(*ssa.MapUpdate)
				if !ok {
					return
				}
				ks := exprStr(mu.Key, shapeOpts)
				if !strings.Contains(ks, "Signatures[") || !strings.Contains(ks, "ValidatorIndex") {
					return
				}
				nsets++
				key := funcKey(g) + " · signer set " + abbr(exprStr(mu.Map, shapeOpts))
				mk, isMk := resolveLocal(mu.Map).(*ssa.MakeMap)
				if !isMk {
					mk, isMk = stripConv(mu.Map).(*ssa.MakeMap)
				}
				loops := enclosingLoops(mu.Block())
				okFresh := isMk
				if isMk && len(loops) > 1 {
					for _, l := range loops[1:] {
						if !l[mk.Block()] {
							okFresh = false
						}
					}
				}
				if !okFresh && isMk && len(loops) > 1 {
					// or emptied at the start of each outer iteration: clear(set) inside the outer loop, dominating the fill
					allInstrs(g, func(x ssa.Instruction) {
						call, isCall := x.(*ssa.Call)
						if !isCall {
							return
						}
						if b, isB := call.Call.Value.(*ssa.Builtin); isB && b.Name() == "clear" && resolveLocal(call.Call.Args[0]) == ssa.Value(mk) || isB && b.Name() == "clear" && stripConv(call.Call.Args[0]) == ssa.Value(mk) {
							inAll := true
							for _, l := range loops[1:] {
								if !l[call.Block()] {
									inAll = false
								}
							}
							if inAll && call.Block().Dominates(mu.Block()) && !loops[0][call.Block()] {
								okFresh = true
							}
						}
					})
				}
				c.Check(okFresh, "C34.validator-record", key, mu.Pos(), "created (or cleared) in the iteration that fills it from that guarantee's signatures", "the set filled from a guarantee's signatures is created outside the loop over the guarantees and never renewed: signers of earlier guarantees are looked up for later ones")
			})
		}
		if nsets == 0 {
			c.Bad("C34.validator-record", "internal/statistics.UpdateReportStatistics · signer set", f.Pos(), "no set of signing validator indices is built from the guarantees' signatures")
		}
	}

	c.Rule("C34.author-dispatch", "UpdateCurrentStatistics applies the six updaters to the posterior π with the header's author index and the block's own extrinsic parts (tickets, preimages ×2, guarantees with posterior τ and κ, assurances) and writes back only the current validator records (SetPiCurrent)", 7)
	st := "alloc:internal/types.Statistics"
	_ = postPi
	c.checkEffects("C34.author-dispatch", "internal/statistics.UpdateCurrentStatistics", fn["UpdateCurrentStatistics"], eff("UpdateCurrentStatistics"), []string{
		"call (*internal/blockchain.PosteriorStates).SetPiCurrent(" + post + ", " + postPi + ".ValsCurr)",
		"call internal/statistics.UpdateAvailabilityStatistics(" + postPi + ", " + author + ", p0.Assurances)",
		"call internal/statistics.UpdateBlockStatistics(" + postPi + ", " + author + ")",
		"call internal/statistics.UpdatePreimageOctetStatistics(" + postPi + ", " + author + ", p0.Preimages)",
		"call internal/statistics.UpdatePreimageStatistics(" + postPi + ", " + author + ", p0.Preimages)",
		"call internal/statistics.UpdateReportStatistics(" + postPi + ", p0.Guarantees, (*internal/blockchain.PosteriorStates).GetTau(" + post + "), (*internal/blockchain.PosteriorStates).GetKappa(" + post + "))",
		"call internal/statistics.UpdateTicketStatistics(" + postPi + ", " + author + ", p0.Tickets)",
	})
	_ = st

	c.Rule("C34.epoch-rotation", "UpdateValidatorActivityStatistics compares GetEpochIndex(prior τ) with GetEpochIndex(posterior τ) (τ / E); same epoch: current and last carried over; different epoch: last ← prior current, current ← fresh zeroed records of length V; then runs the three updaters on the block's extrinsic", 8)
	{
		f := fn["UpdateValidatorActivityStatistics"]
		c.checkShapes("C34.epoch-rotation", "internal/statistics.GetEpochIndex", fn["GetEpochIndex"], returnShapes(fn["GetEpochIndex"]), map[string][]string{"ret": {"(p0 / u32(internal/types.EpochLength))"}})
		// which records the two setters receive, for each outcome of the epoch comparison (the written form of the
		// test and of the arms does not matter: the function is followed with the two epoch indices valued)
		wantArgs := map[bool][2]string{
			true:  {priorPi + ".ValsCurr", priorPi + ".ValsLast"},
			false: {"make([]internal/types.ValidatorActivityRecord, internal/types.ValidatorsCount)", priorPi + ".ValsCurr"},
		}
		for _, ep := range [][2]int64{{5, 5}, {5, 6}, {6, 5}, {0, 0}} {
			same := ep[0] == ep[1]
			arm := "different epoch"
			if same {
				arm = "same epoch"
			}
			got := map[string][]string{}
			valued := 0
			_, ok := runWithAtomsChoice(f, shapeOpts, func(s string) (int64, bool) {
				if strings.HasPrefix(s, "internal/statistics.GetEpochIndex(") || strings.HasPrefix(s, "statistics.GetEpochIndex(") {
					switch {
					case strings.Contains(s, "PosteriorStates).GetTau(") || strings.Contains(s, "post.GetTau("):
						valued++
						return ep[1], true
					case strings.Contains(s, "PriorStates).GetTau(") || strings.Contains(s, "prior.GetTau("):
						valued++
						return ep[0], true
					}
				}
				return 0, false
			}, func(in ssa.Instruction, choice map[*ssa.Phi]ssa.Value) {
				ci, isCall := in.(*ssa.Call)
				if !isCall || ci.Call.StaticCallee() == nil {
					return
				}
				n := ci.Call.StaticCallee().Name()
				if (n == "SetPiCurrent" || n == "SetPiLast") && len(ci.Call.Args) == 2 {
					recv := exprStr(ci.Call.Args[0], shapeOpts)
					if recv != post {
						n += " on " + recv
					}
					got[n] = append(got[n], exprStr(resolveChoice(ci.Call.Args[1], choice), shapeOpts))
				}
			})
			key := fmt.Sprintf("internal/statistics.UpdateValidatorActivityStatistics · %s (τ epoch %d → %d)", arm, ep[0], ep[1])
			switch {
			case !ok || valued < 2:
				c.Bad("C34.epoch-rotation", key, f.Pos(), "the rotation is not decided by comparing GetEpochIndex(prior τ) with GetEpochIndex(posterior τ) (conditions: %s)", strings.Join(condShapes(f), " ; "))
			case len(got) != 2 || len(got["SetPiCurrent"]) != 1 || len(got["SetPiLast"]) != 1:
				c.Bad("C34.epoch-rotation", key, f.Pos(), "the posterior records are not set by exactly one SetPiCurrent and one SetPiLast on the posterior state: %v", got)
			case got["SetPiCurrent"][0] != wantArgs[same][0] || got["SetPiLast"][0] != wantArgs[same][1]:
				c.Bad("C34.epoch-rotation", key, f.Pos(), "current ← %s, last ← %s; the specification requires current ← %s, last ← %s", abbr(got["SetPiCurrent"][0]), abbr(got["SetPiLast"][0]), abbr(wantArgs[same][0]), abbr(wantArgs[same][1]))
			default:
				c.OK("C34.epoch-rotation", key, f.Pos(), "current ← %s, last ← %s", abbr(got["SetPiCurrent"][0]), abbr(got["SetPiLast"][0]))
			}
		}
		// the three updaters, each with the latest block's extrinsic
		got := map[string]bool{}
		for _, cl := range f.AnonFuncs {
			for _, e := range effectShapes(cl, setters) {
				got[e] = true
			}
		}
		ext := "(*internal/blockchain.ChainState).GetLatestBlock(internal/blockchain.GetInstance()).Extrinsic"
		for _, n := range []string{"UpdateCurrentStatistics", "UpdateCoreActivityStatistics", "UpdateServiceActivityStatistics"} {
			okc := false
			for e := range got {
				if strings.HasPrefix(e, "call internal/statistics."+n+"(") && (strings.Contains(e, "fv") || strings.Contains(e, ext)) {
					okc = true
				}
			}
			c.Check(okc, "C34.epoch-rotation", "internal/statistics.UpdateValidatorActivityStatistics → "+n, f.Pos(), "updater invoked", "updater "+n+" is not invoked on the block's extrinsic")
		}
	}

	c.Rule("C34.core-service-sums", "core and service records are built field-for-field from same-named sums over work digests (Imports←ΣImports, …), bundle size, DA load, popularity, provided count/size, accumulate count/gas; inputs are the present (w) and available (W) work reports and the accumulation statistics", 30)
	wr := "alloc:internal/statistics.Pi_C_R_Output"
	res := "p1[p0]#0.Results[*].RefineLoad"
	c.checkShapes("C34.core-service-sums", "internal/statistics.CalculateWorkResults", fn["CalculateWorkResults"], returnShapes(fn["CalculateWorkResults"]), map[string][]string{
		"ret.Imports":        {"(" + wr + ".Imports + " + res + ".Imports)"},
		"ret.ExtrinsicCount": {"(" + wr + ".ExtrinsicCount + " + res + ".ExtrinsicCount)"},
		"ret.ExtrinsicSize":  {"(" + wr + ".ExtrinsicSize + " + res + ".ExtrinsicSize)"},
		"ret.Exports":        {"(" + wr + ".Exports + " + res + ".Exports)"},
		"ret.GasUsed":        {"(" + wr + ".GasUsed + " + res + ".GasUsed)"},
		"ret.BundleSize":     {"p1[p0]#0.PackageSpec.Length"},
	})
	sr := "alloc:internal/statistics.Pi_S_R_Output"
	sres := "p1[p0]#0[*].RefineLoad"
	c.checkShapes("C34.core-service-sums", "internal/statistics.CalculateServiceResults", fn["CalculateServiceResults"], returnShapes(fn["CalculateServiceResults"]), map[string][]string{
		"ret.n":              {"(1 + " + sr + ".n)", "u32(len(p1[p0]))"}, // counted per element, or taken as the length of the same list
		"ret.Imports":        {"(" + sr + ".Imports + u32(" + sres + ".Imports))"},
		"ret.ExtrinsicCount": {"(" + sr + ".ExtrinsicCount + u32(" + sres + ".ExtrinsicCount))"},
		"ret.ExtrinsicSize":  {"(" + sr + ".ExtrinsicSize + " + sres + ".ExtrinsicSize)"},
		"ret.Exports":        {"(" + sr + ".Exports + u32(" + sres + ".Exports))"},
		"ret.GasUsed":        {"(" + sr + ".GasUsed + " + sres + ".GasUsed)"},
	})
	c.checkShapes("C34.core-service-sums", "internal/statistics.CalculateAccumulationStatistics", fn["CalculateAccumulationStatistics"], returnShapes(fn["CalculateAccumulationStatistics"]), map[string][]string{
		"ret#0": {"phi(0 | u32(p1[p0]#0.NumAccumulatedReports))"},
		"ret#1": {"phi(0 | p1[p0]#0.Gas)"},
	})
	present := "internal/statistics.createWorkReportMap((*internal/blockchain.IntermediateStates).GetPresentWorkReports(" + inter + "))"
	avail := "internal/statistics.createWorkReportMap((*internal/blockchain.IntermediateStates).GetAvailableWorkReports(" + inter + "))"
	R := "internal/statistics.CalculateWorkResults(u16(*), " + present + ")"
	c.checkShapes("C34.core-service-sums", "internal/statistics.UpdateCoreActivityStatistics · record", fn["UpdateCoreActivityStatistics"], literalStores(fn["UpdateCoreActivityStatistics"], "types.CoreActivityRecord"), map[string][]string{
		"Imports": {R + ".Imports"}, "ExtrinsicCount": {R + ".ExtrinsicCount"}, "ExtrinsicSize": {R + ".ExtrinsicSize"},
		"Exports": {R + ".Exports"}, "GasUsed": {R + ".GasUsed"}, "BundleSize": {R + ".BundleSize"},
		"DALoad":     {"internal/statistics.CalculateDALoad(u16(*), " + avail + ")"},
		"Popularity": {"internal/statistics.CalculatePopularity(u16(*), p0.Assurances)"},
	})
	svc := "internal/statistics.GetAllServices(p0.Preimages)[*]"
	SR := "internal/statistics.CalculateServiceResults(" + svc + ", internal/statistics.CreateServiceWorkResultsMap())"
	acc := "internal/statistics.CalculateAccumulationStatistics(" + svc + ", (*internal/blockchain.IntermediateStates).GetAccumulationStatistics(" + inter + "))"
	c.checkShapes("C34.core-service-sums", "internal/statistics.UpdateServiceActivityStatistics · record", fn["UpdateServiceActivityStatistics"], literalStores(fn["UpdateServiceActivityStatistics"], "types.ServiceActivityRecord"), map[string][]string{
		"RefinementCount": {SR + ".n"}, "RefinementGasUsed": {SR + ".GasUsed"}, "Imports": {SR + ".Imports"}, "Exports": {SR + ".Exports"},
		"ExtrinsicSize": {SR + ".ExtrinsicSize"}, "ExtrinsicCount": {SR + ".ExtrinsicCount"},
		"AccumulateCount": {acc + "#0"}, "AccumulateGasUsed": {acc + "#1"},
	})
	// p: provided count / size per service — decided on the construction of the tally (c34Tally)
	if f := fn["UpdateServiceActivityStatistics"]; f != nil {
		vals := literalStoreValues(f, "types.ServiceActivityRecord")
		for _, t := range []struct{ field, delta, doc string }{{"ProvidedCount", "1", "the number of preimages requested by the service"}, {"ProvidedSize", "len", "the total blob length of the preimages requested by the service"}} {
			ok, why := false, "the field is not set"
			if v := vals[t.field]; v != nil {
				ok, why = c34Tally(f, v, svc, "p0.Preimages", t.delta)
			}
			c.Check(ok, "C34.core-service-sums", "internal/statistics.UpdateServiceActivityStatistics · record · "+t.field, f.Pos(), t.field+" ← "+t.doc+" (tally over every preimage, keyed by requester)", t.field+" is not "+t.doc+": "+why)
		}
	}
	c.checkEffects("C34.core-service-sums", "internal/statistics.UpdateCoreActivityStatistics", fn["UpdateCoreActivityStatistics"],
		effectShapes(fn["UpdateCoreActivityStatistics"], func(n string) bool { return strings.Contains(n, ").Set") }),
		[]string{"call (*internal/blockchain.PosteriorStates).SetCoresStatistics(" + post + ", make([]internal/types.CoreActivityRecord, internal/types.CoresCount))"})
	c.checkEffects("C34.core-service-sums", "internal/statistics.UpdateServiceActivityStatistics", fn["UpdateServiceActivityStatistics"],
		effectShapes(fn["UpdateServiceActivityStatistics"], func(n string) bool { return strings.Contains(n, ").Set") }),
		[]string{"call (*internal/blockchain.PosteriorStates).SetServicesStatistics(" + post + ", phi(makemap | nil))"})

	return "Provenance/effect tables for activity statistics, decided on SSA: the exact store each per-validator updater performs (which counter, which index, which increment), the dispatch of the six updaters with the header's author index and the block's extrinsic parts, the epoch-rotation test and the setter on each arm, and the field-for-field construction of core and service records from sums over work digests. Does not decide reporter-set membership (guarantor assignment values) or DA-load arithmetic.",
		[]string{"canonical expression rendering (loads from equal addresses equal; equal-width conversions transparent)", "the expected table is transcribed from GP 13.3–13.16"}
}

func findIndexAddr(v ssa.Value) *ssa.IndexAddr {
	for i := 0; i < 10 && v != nil; i++ {
		switch x := v.(type) {
		case *ssa.IndexAddr:
			return x
		case *ssa.FieldAddr:
			v = x.X
		case *ssa.UnOp:
			v = x.X
		case *ssa.Field:
			v = x.X
		case *ssa.Alloc:
			sv := singleStore(x)
			if sv == nil {
				return nil
			}
			v = sv
		default:
			return nil
		}
	}
	return nil
}

// lookupOfCond: the map lookup whose ok-result is the condition of the If at edge e.
func lookupOfCond(e edge) *ssa.Lookup {
	ifi, ok := e.from.Instrs[len(e.from.Instrs)-1].(*ssa.If)
	if !ok {
		return nil
	}
	ex, ok := ifi.Cond.(*ssa.Extract)
	if !ok {
		return nil
	}
	l, _ := ex.Tuple.(*ssa.Lookup)
	return l
}

// withClosuresAndHelpers: f, its closures, and the same-package functions it calls directly.
func withClosuresAndHelpers(f *ssa.Function) []*ssa.Function {
	out := withClosures(f)
	seen := map[*ssa.Function]bool{}
	for _, g := range out {
		seen[g] = true
	}
	allInstrs(f, func(in ssa.Instruction) {
		if ci, ok := in.(ssa.CallInstruction); ok {
			if g := calleeFunc(ci); g != nil && len(g.Blocks) > 0 && g.Pkg == f.Pkg && !seen[g] {
				seen[g] = true
				out = append(out, g)
			}
		}
	})
	return out
}
