package main

import (
	"fmt"
	"go/constant"
	"go/types"
	"sort"
	"strings"

	"golang.org/x/tools/go/ssa"
)

const saPkg = "internal/service_account"

func checkC09(c *Ctx) (string, []string) {
	e := newOmegaEnv(c)
	if len(c.fatal) > 0 {
		return "", nil
	}
	fn := map[string]*ssa.Function{}
	for _, n := range []string{"CalcThresholdBalance", "CalcLookupItemfootprint", "CalcStorageItemfootprint", "CalcKeys", "CalcOctets", "GetServiceAccountDerivatives"} {
		fn[n] = c.Fn(saPkg, n)
	}
	if len(c.fatal) > 0 {
		return "", nil
	}
	K := saPkg + "."
	ret := func(n string) map[string][]string { return returnShapes(fn[n]) }

	c.Rule("C09.threshold-formula", "CalcThresholdBalance = B_S + B_I·items + B_L·octets with every product computed in 64 bits, minus the gratis offset, floored at zero by an explicit comparison before the subtraction", 3)
	{
		f := fn["CalcThresholdBalance"]
		bS, bI, bL := uint64(100), uint64(10), uint64(1)
		for name, dst := range map[string]*uint64{"BasicMinBalance": &bS, "AdditionalMinBalancePerItem": &bI, "AdditionalMinBalancePerOctet": &bL} {
			if k, ok := c.Obj(typesPkg, name).(*types.Const); ok {
				if v, exact := constant.Uint64Val(k.Val()); exact {
					*dst = v
				}
			}
		}
		bad := ""
		n := 0
		for _, it := range []uint64{0, 1, 2, 1 << 31, 1<<32 - 1} {
			for _, oc := range []uint64{0, 1, 1 << 32, 1 << 63, 1<<64 - 1} {
				for _, gr := range []uint64{0, 1, 99, 100, 101, 1 << 40, 1<<64 - 1} {
					if bad != "" {
						break
					}
					env := intEnv{params: map[ssa.Value]int64{f.Params[0]: int64(it), f.Params[1]: int64(oc), f.Params[2]: int64(gr)}, lens: map[ssa.Value]int64{}, unknown: map[ssa.Value]bool{}, closed: true, cells: map[ssa.Value]int64{}}
					rs, ok := runFunc(f, env)
					n++
					dep := bS + bI*it + bL*oc
					want := uint64(0)
					if dep >= gr {
						want = dep - gr
					}
					if !ok || len(rs) != 1 {
						bad = "CalcThresholdBalance is not a pure function of (items, octets, gratis offset)"
					} else if uint64(rs[0]) != want {
						bad = fmt.Sprintf("items=%d octets=%d gratis=%d: the code gives %d; max(0, B_S + B_I·items + B_L·octets − gratis) in 64-bit arithmetic is %d", it, oc, gr, uint64(rs[0]), want)
					}
				}
			}
		}
		c.Check(bad == "", "C09.threshold-formula", K+"CalcThresholdBalance · ret", f.Pos(), fmt.Sprintf("= max(0, B_S + B_I·items + B_L·octets − gratis) with 64-bit products on %d boundary valuations", n), bad)
		c.Check(bad == "", "C09.threshold-formula", K+"CalcThresholdBalance · floor", f.Pos(), "0 exactly when the deposit is below the gratis offset (same evaluation)", "the zero floor is not decided by comparing the deposit with the gratis offset before subtracting: "+bad)
		// no multiplication in a type narrower than 64 bits on non-constant operands
		narrow := ""
		allInstrs(f, func(in ssa.Instruction) {
			b, isB := in.(*ssa.BinOp)
			if isB && b.Op.String() == "*" {
				if n := intTypeName(b.Type()); n != "u64" && n != "i64" {
					if _, cx := b.X.(*ssa.Const); !cx {
						narrow = exprStr(b, shapeOpts) + " in " + n
					}
				}
			}
		})
		c.Check(narrow == "", "C09.threshold-formula", K+"CalcThresholdBalance · 64-bit products", f.Pos(), "all products are 64-bit", "product computed in a narrow type: "+narrow)
	}

	c.Rule("C09.footprint-formulas", "per-entry and whole-account footprints equal GP 9.8: lookup entry (2, 81+z); storage entry (1, 34+|k|+|v|); items = 2|l|+|s|; octets = Σ(81+z)+Σ(34+|k|+|v|); derivatives are computed from the account passed in", 8)
	c.checkShapes("C09.footprint-formulas", K+"CalcLookupItemfootprint", fn["CalcLookupItemfootprint"], ret("CalcLookupItemfootprint"), map[string][]string{"ret#0": {"2"}, "ret#1": {"(81 + u64(p0.Length))"}})
	c.checkShapes("C09.footprint-formulas", K+"CalcStorageItemfootprint", fn["CalcStorageItemfootprint"], ret("CalcStorageItemfootprint"), map[string][]string{"ret#0": {"1"}, "ret#1": {"((34 + u64(len(p0))) + u64(len(p1)))"}})
	c.checkShapes("C09.footprint-formulas", K+"CalcKeys", fn["CalcKeys"], ret("CalcKeys"), map[string][]string{"ret": {"u32(((2 * len(p0.LookupDict)) + len(p0.StorageDict)))"}})
	{
		rs := ret("CalcOctets")["ret"]
		okO := len(rs) == 1
		var terms []string
		if okO {
			terms, okO = sigmaTerms(rs[0])
			sort.Strings(terms)
		}
		want := []string{"34 + len(next(range(p0.StorageDict))#1) + len(next(range(p0.StorageDict))#2)", "81 + int(next(range(p0.LookupDict))#1.Length)"}
		c.Check(okO && strings.Join(terms, " ;; ") == strings.Join(want, " ;; "), "C09.footprint-formulas", K+"CalcOctets · ret", fn["CalcOctets"].Pos(), "Σ over lookup keys of (81 + z) plus Σ over storage entries of (34 + |k| + |v|), in one or two accumulators", fmt.Sprintf("CalcOctets adds up %v (from %v); GP 9.8 sums %v", terms, rs, want))
	}
	c.checkShapes("C09.footprint-formulas", K+"GetServiceAccountDerivatives", fn["GetServiceAccountDerivatives"], ret("GetServiceAccountDerivatives"), map[string][]string{
		"ret.Items": {K + "CalcKeys(p0)"}, "ret.Bytes": {K + "CalcOctets(p0)"},
		"ret.Minbalance": {K + "CalcThresholdBalance(" + K + "CalcKeys(p0), " + K + "CalcOctets(p0), p0.ServiceInfo.DepositOffset)"},
	})

	c.Rule("C09.counts-track-mutations", "every insert/delete on an account's StorageDict or LookupDict in package PVM (other than the raw-pool migration idiom) is accompanied, on every path through it, by stores to both ServiceInfo.Items and ServiceInfo.Bytes of the same function (or is the construction of a brand-new account whose counts come from GetServiceAccountDerivatives, or writes a new value under a lookup key that is known to be present, which changes no count)", 5)
	isCountStore := func(field string) func(ssa.Instruction) bool {
		return func(in ssa.Instruction) bool {
			st, ok := in.(*ssa.Store)
			if !ok {
				return false
			}
			fa, ok := st.Addr.(*ssa.FieldAddr)
			return ok && fieldName(fa.X.Type(), fa.Field) == field && hasSuffixType(derefType(fa.X.Type()), "types.ServiceInfo")
		}
	}
	nmut := 0
	for _, f := range c.SrcFuncs("PVM") {
		allInstrs(f, func(in ssa.Instruction) {
			var m ssa.Value
			kind := ""
			switch x := in.(type) {
			case *ssa.MapUpdate:
				m, kind = x.Map, "insert"
			case *ssa.Call:
				if b, ok := x.Call.Value.(*ssa.Builtin); ok && b.Name() == "delete" {
					m, kind = x.Call.Args[0], "delete"
				}
			}
			if m == nil {
				return
			}
			ms := exprStr(m, shapeOpts)
			if !(strings.HasSuffix(ms, ".StorageDict") || strings.HasSuffix(ms, ".LookupDict")) {
				return
			}
			if ok, _ := e.migrationExempt(in); ok {
				return
			}
			if rootedInFresh(m) || strings.HasPrefix(ms, "alloc:") && kind == "insert" && strings.Contains(ms, "makemap") {
				return
			}
			nmut++
			key := fmt.Sprintf("%s · %s %s", funcKey(f), kind, abbr(ms))
			okBoth := true
			for _, fld := range []string{"Items", "Bytes"} {
				isS := isCountStore(fld)
				_, after := findPath(pathQuery{start: in, target: isReturn, blocker: isS})
				_, before := findPath(pathQuery{fn: f, target: func(x ssa.Instruction) bool { return x == in }, blocker: isS})
				if after && before {
					okBoth = false
				}
			}
			if !okBoth && kind == "insert" && strings.HasSuffix(ms, ".LookupDict") {
				// the lookup dictionary's footprint depends only on its key set: a new value under a key that is known to be there changes no count
				if mu := in.(*ssa.MapUpdate); lookupKeyPresent(c, f, in, mu.Map, mu.Key, 0) {
					c.OK("C09.counts-track-mutations", key, in.Pos(), "new value under a key that is known to be present (the lookup footprint depends only on the key set)")
					return
				}
			}
			c.Check(okBoth, "C09.counts-track-mutations", key, in.Pos(), "Items and Bytes are both updated on every path through this mutation", "a path changes the dictionary without updating the recorded item/octet counts")
		})
	}
	c.extra["dictionary_mutations"] = nmut

	c09MigrationBeforeRead(c)

	c.Rule("C09.full-before-mutation", "no state mutation precedes a FULL result on any path (host calls and their register-setting helpers)", 3)
	e.ruleNoMutationBeforeErrorF("C09.full-before-mutation", map[string]string{}, func(x string) bool { return x == "FULL" })

	c.Rule("C09.threshold-arguments", "every CalcThresholdBalance call in package PVM takes items, octets and gratis offset of one and the same account (optionally adjusted by a footprint)", 3)
	thr := c.Obj(saPkg, "CalcThresholdBalance")
	for _, f := range c.SrcFuncs("PVM") {
		for _, call := range callsIn(f, thr) {
			a := call.Common().Args
			s0, s1, s2 := exprStr(a[0], shapeOpts), exprStr(a[1], shapeOpts), exprStr(a[2], shapeOpts)
			// the three fields hang off one and the same value: an account (x.ServiceInfo.F) or its info record (x.F)
			base := strings.TrimSuffix(s2, ".DepositOffset")
			ok := base != s2 && strings.Contains(s0, base+".Items") && strings.Contains(s1, base+".Bytes") &&
				!strings.Contains(s0, ".Bytes") && !strings.Contains(s1, ".Items")
			c.Check(ok, "C09.threshold-arguments", funcKey(f)+" · CalcThresholdBalance("+abbr(base)+")", call.Pos(), "items/octets/offset of the same account", "threshold computed from mismatched fields: ("+abbr(s0)+", "+abbr(s1)+", "+abbr(s2)+")")
		}
	}
	return "Footprint and threshold accounting decided on SSA: the threshold formula with 64-bit products and an explicit zero floor; the per-entry and whole-account footprint formulas; every dictionary insert/delete is paired with updates of both recorded counts; FULL is returned before any mutation; threshold calls take one account's own counts. Does not decide equality of recorded and derived counts over histories (needs execution).",
		[]string{"canonical expression rendering; GP constants B_S=100, B_I=10, B_L=1 appear folded in the threshold shape", "the raw-pool migration idiom is representation-preserving"}
}
