package main

import (
	"fmt"
	"strings"

	"golang.org/x/tools/go/ssa"
)

const saPkg = "internal/service_account"

func checkC09(c *Ctx) (string, []string) {
	e := newOmegaEnv(c)
	if len(c.fatal) > 0 {
		return "", nil
	}
	fn := map[string]*ssa.Function{}
	for _, n := range []string{"CalcThresholdBalance", "CalcLookupItemfootprint", "CalcStorageItemfootprint", "CalcKeys", "CalcOctets", "GetServiceAccountDerivatives"} {
		fn[n] = c.Fn(saPkg, n)
	}
	if len(c.fatal) > 0 {
		return "", nil
	}
	K := saPkg + "."
	ret := func(n string) map[string][]string { return returnShapes(fn[n]) }

	c.Rule("C09.threshold-formula", "CalcThresholdBalance = B_S + B_I·items + B_L·octets with every product computed in 64 bits, minus the gratis offset, floored at zero by an explicit comparison before the subtraction", 3)
	sum := "(((10 * u64(p0)) + 100) + (1 * p1))"
	c.checkShapes("C09.threshold-formula", K+"CalcThresholdBalance", fn["CalcThresholdBalance"], ret("CalcThresholdBalance"), map[string][]string{"ret": {"(" + sum + " - p2)", "0"}})
	{
		f := fn["CalcThresholdBalance"]
		floor := condEdges(f, func(v ssa.Value) (bool, bool) { return exprStr(v, shapeOpts) == "("+sum+" < p2)", true })
		ok := len(floor) == 1
		allInstrs(f, func(in ssa.Instruction) {
			r, isR := in.(*ssa.Return)
			if !isR {
				return
			}
			s := exprStr(retResults(r)[0], shapeOpts)
			if s == "0" {
				ok = ok && guardedBy(f, in, floor)
			} else {
				nf := []edge{}
				for _, e := range floor {
					nf = append(nf, edge{e.from, 1 - e.succ})
				}
				ok = ok && guardedBy(f, in, nf)
			}
		})
		c.Check(ok, "C09.threshold-formula", K+"CalcThresholdBalance · floor", f.Pos(), "0 iff deposit < gratis offset, difference otherwise", "the zero floor is not decided by comparing the deposit with the gratis offset before subtracting")
		// no multiplication in a type narrower than 64 bits on non-constant operands
		narrow := ""
		allInstrs(f, func(in ssa.Instruction) {
			b, isB := in.(*ssa.BinOp)
			if isB && b.Op.String() == "*" {
				if n := intTypeName(b.Type()); n != "u64" && n != "i64" {
					if _, cx := b.X.(*ssa.Const); !cx {
						narrow = exprStr(b, shapeOpts) + " in " + n
					}
				}
			}
		})
		c.Check(narrow == "", "C09.threshold-formula", K+"CalcThresholdBalance · 64-bit products", f.Pos(), "all products are 64-bit", "product computed in a narrow type: "+narrow)
	}

	c.Rule("C09.footprint-formulas", "per-entry and whole-account footprints equal GP 9.8: lookup entry (2, 81+z); storage entry (1, 34+|k|+|v|); items = 2|l|+|s|; octets = Σ(81+z)+Σ(34+|k|+|v|); derivatives are computed from the account passed in", 8)
	c.checkShapes("C09.footprint-formulas", K+"CalcLookupItemfootprint", fn["CalcLookupItemfootprint"], ret("CalcLookupItemfootprint"), map[string][]string{"ret#0": {"2"}, "ret#1": {"(81 + u64(p0.Length))"}})
	c.checkShapes("C09.footprint-formulas", K+"CalcStorageItemfootprint", fn["CalcStorageItemfootprint"], ret("CalcStorageItemfootprint"), map[string][]string{"ret#0": {"1"}, "ret#1": {"((34 + u64(len(p0))) + u64(len(p1)))"}})
	c.checkShapes("C09.footprint-formulas", K+"CalcKeys", fn["CalcKeys"], ret("CalcKeys"), map[string][]string{"ret": {"u32(((2 * len(p0.LookupDict)) + len(p0.StorageDict)))"}})
	c.checkShapes("C09.footprint-formulas", K+"CalcOctets", fn["CalcOctets"], ret("CalcOctets"), map[string][]string{"ret": {"u64((Σ(0; ((34 + len(next(range(p0.StorageDict))#2)) + len(next(range(p0.StorageDict))#1))) + Σ(0; (81 + int(next(range(p0.LookupDict))#1.Length)))))"}})
	c.checkShapes("C09.footprint-formulas", K+"GetServiceAccountDerivatives", fn["GetServiceAccountDerivatives"], ret("GetServiceAccountDerivatives"), map[string][]string{
		"ret.Items": {K + "CalcKeys(p0)"}, "ret.Bytes": {K + "CalcOctets(p0)"},
		"ret.Minbalance": {K + "CalcThresholdBalance(" + K + "CalcKeys(p0), " + K + "CalcOctets(p0), p0.ServiceInfo.DepositOffset)"},
	})

	c.Rule("C09.counts-track-mutations", "every insert/delete on an account's StorageDict or LookupDict in package PVM (other than the raw-pool migration idiom) is accompanied, on every path through it, by stores to both ServiceInfo.Items and ServiceInfo.Bytes of the same function (or is the construction of a brand-new account whose counts come from GetServiceAccountDerivatives)", 5)
	isCountStore := func(field string) func(ssa.Instruction) bool {
		return func(in ssa.Instruction) bool {
			st, ok := in.(*ssa.Store)
			if !ok {
				return false
			}
			fa, ok := st.Addr.(*ssa.FieldAddr)
			return ok && fieldName(fa.X.Type(), fa.Field) == field && hasSuffixType(derefType(fa.X.Type()), "types.ServiceInfo")
		}
	}
	nmut := 0
	for _, f := range c.SrcFuncs("PVM") {
		allInstrs(f, func(in ssa.Instruction) {
			var m ssa.Value
			kind := ""
			switch x := in.(type) {
			case *ssa.MapUpdate:
				m, kind = x.Map, "insert"
			case *ssa.Call:
				if b, ok := x.Call.Value.(*ssa.Builtin); ok && b.Name() == "delete" {
					m, kind = x.Call.Args[0], "delete"
				}
			}
			if m == nil {
				return
			}
			ms := exprStr(m, shapeOpts)
			if !(strings.HasSuffix(ms, ".StorageDict") || strings.HasSuffix(ms, ".LookupDict")) {
				return
			}
			if ok, _ := e.migrationExempt(in); ok {
				return
			}
			if rootedInFresh(m) || strings.HasPrefix(ms, "alloc:") && kind == "insert" && strings.Contains(ms, "makemap") {
				return
			}
			nmut++
			key := fmt.Sprintf("%s · %s %s", funcKey(f), kind, abbr(ms))
			okBoth := true
			for _, fld := range []string{"Items", "Bytes"} {
				isS := isCountStore(fld)
				_, after := findPath(pathQuery{start: in, target: isReturn, blocker: isS})
				_, before := findPath(pathQuery{fn: f, target: func(x ssa.Instruction) bool { return x == in }, blocker: isS})
				if after && before {
					okBoth = false
				}
			}
			c.Check(okBoth, "C09.counts-track-mutations", key, in.Pos(), "Items and Bytes are both updated on every path through this mutation", "a path changes the dictionary without updating the recorded item/octet counts")
		})
	}
	c.extra["dictionary_mutations"] = nmut

	c.Rule("C09.full-before-mutation", "no state mutation precedes a FULL result on any path (host calls and their register-setting helpers)", 3)
	e.ruleNoMutationBeforeErrorF("C09.full-before-mutation", map[string]string{}, func(x string) bool { return x == "FULL" })

	c.Rule("C09.threshold-arguments", "every CalcThresholdBalance call in package PVM takes items, octets and gratis offset of one and the same account (optionally adjusted by a footprint)", 5)
	thr := c.Obj(saPkg, "CalcThresholdBalance")
	for _, f := range c.SrcFuncs("PVM") {
		for _, call := range callsIn(f, thr) {
			a := call.Common().Args
			s0, s1, s2 := exprStr(a[0], shapeOpts), exprStr(a[1], shapeOpts), exprStr(a[2], shapeOpts)
			base := strings.TrimSuffix(s2, ".ServiceInfo.DepositOffset")
			ok := base != s2 && strings.Contains(s0, base+".ServiceInfo.Items") && strings.Contains(s1, base+".ServiceInfo.Bytes") &&
				!strings.Contains(s0, ".ServiceInfo.Bytes") && !strings.Contains(s1, ".ServiceInfo.Items")
			c.Check(ok, "C09.threshold-arguments", funcKey(f)+" · CalcThresholdBalance("+abbr(base)+")", call.Pos(), "items/octets/offset of the same account", "threshold computed from mismatched fields: ("+abbr(s0)+", "+abbr(s1)+", "+abbr(s2)+")")
		}
	}
	return "Footprint and threshold accounting decided on SSA: the threshold formula with 64-bit products and an explicit zero floor; the per-entry and whole-account footprint formulas; every dictionary insert/delete is paired with updates of both recorded counts; FULL is returned before any mutation; threshold calls take one account's own counts. Does not decide equality of recorded and derived counts over histories (needs execution).",
		[]string{"canonical expression rendering; GP constants B_S=100, B_I=10, B_L=1 appear folded in the threshold shape", "the raw-pool migration idiom is representation-preserving"}
}
