package main

import (
	"go/token"
	"sort"
	"strings"

	"golang.org/x/tools/go/ssa"
)

// condKey canonicalises a branch condition: negations and != are folded
// into (key, polarity) so that `x != 0` true and `x == 0` false agree.
func condKey(v ssa.Value) (string, bool) {
	pol := true
	for {
		if u, ok := v.(*ssa.UnOp); ok && u.Op == token.NOT {
			v = u.X
			pol = !pol
			continue
		}
		break
	}
	if b, ok := v.(*ssa.BinOp); ok && b.Op == token.NEQ {
		a, c := exprStr(b.X, shapeOpts), exprStr(b.Y, shapeOpts)
		if a > c {
			a, c = c, a
		}
		return "(" + a + " == " + c + ")", !pol
	}
	return exprStr(v, shapeOpts), pol
}

// findPathF is findPath with a light path-sensitivity: along a path, two
// branches on the same canonical condition must agree. Facts are dropped on
// loop back-edges (SSA values are per-iteration). Only conditions that occur
// in at least two If instructions of the function are tracked.
func findPathF(q pathQuery) (ssa.Instruction, bool) {
	var fn *ssa.Function
	switch {
	case q.fn != nil:
		fn = q.fn
	case q.start != nil:
		fn = q.start.Parent()
	case len(q.startEdges) > 0:
		fn = q.startEdges[0].from.Parent()
	}
	if fn == nil {
		return findPath(q)
	}
	// tracked conditions
	type ck struct {
		key string
		pol bool
	}
	ifKey := map[*ssa.BasicBlock]ck{}
	count := map[string]int{}
	for _, b := range fn.Blocks {
		if len(b.Instrs) == 0 {
			continue
		}
		if ifi, ok := b.Instrs[len(b.Instrs)-1].(*ssa.If); ok {
			k, p := condKey(ifi.Cond)
			ifKey[b] = ck{k, p}
			count[k]++
		}
	}
	tracked := map[string]bool{}
	for k, n := range count {
		if n >= 2 {
			tracked[k] = true
		}
	}
	if len(tracked) == 0 {
		return findPath(q)
	}
	type item struct {
		b     *ssa.BasicBlock
		i     int
		facts string // sorted "key=0|1;" list
	}
	parseFacts := func(s string) map[string]bool {
		m := map[string]bool{}
		for _, f := range strings.Split(s, "\x00") {
			if f == "" {
				continue
			}
			m[f[:len(f)-1]] = f[len(f)-1] == '1'
		}
		return m
	}
	fmtFacts := func(m map[string]bool) string {
		var ks []string
		for k, v := range m {
			if v {
				ks = append(ks, k+"1")
			} else {
				ks = append(ks, k+"0")
			}
		}
		sort.Strings(ks)
		return strings.Join(ks, "\x00")
	}
	seen := map[item]bool{}
	var work []item
	if len(q.startEdges) > 0 {
		for _, e := range q.startEdges {
			facts := map[string]bool{}
			if c, ok := ifKey[e.from]; ok && tracked[c.key] {
				facts[c.key] = (e.succ == 0) == c.pol
			}
			work = append(work, item{e.from.Succs[e.succ], 0, fmtFacts(facts)})
		}
	} else if q.start != nil {
		b := q.start.Block()
		idx := -1
		for i, in := range b.Instrs {
			if in == q.start {
				idx = i
			}
		}
		work = append(work, item{b, idx + 1, ""})
	} else {
		work = append(work, item{fn.Blocks[0], 0, ""})
	}
	steps := 0
	for len(work) > 0 {
		it := work[len(work)-1]
		work = work[:len(work)-1]
		key := it
		if it.i != 0 {
			key.i = -1 // mid-block starts are unique
		}
		if seen[key] && it.i == 0 {
			continue
		}
		seen[key] = true
		steps++
		if steps > 200000 {
			return findPath(q) // give up on sensitivity, stay sound (over-approximate)
		}
		blocked := false
		for i := it.i; i < len(it.b.Instrs); i++ {
			in := it.b.Instrs[i]
			if q.target != nil && q.target(in) {
				return in, true
			}
			if q.blocker != nil && q.blocker(in) {
				blocked = true
				break
			}
		}
		if blocked {
			continue
		}
		facts := parseFacts(it.facts)
		for si, s := range it.b.Succs {
			if q.edgeBlock != nil && q.edgeBlock(edge{it.b, si}) {
				continue
			}
			nf := facts
			if c, ok := ifKey[it.b]; ok && tracked[c.key] {
				val := (si == 0) == c.pol
				if old, known := facts[c.key]; known && old != val {
					continue // contradicts an earlier branch on the same condition
				}
				nf = map[string]bool{}
				for k, v := range facts {
					nf[k] = v
				}
				nf[c.key] = val
			}
			if s.Dominates(it.b) {
				nf = map[string]bool{} // back edge: facts are per-iteration
			}
			work = append(work, item{s, 0, fmtFacts(nf)})
		}
	}
	return nil, false
}

// guardedByF: guardedBy using the fact-tracking path search.
func guardedByF(fn *ssa.Function, use ssa.Instruction, passing []edge) bool {
	if len(passing) == 0 {
		return false
	}
	set := map[edge]bool{}
	for _, e := range passing {
		set[e] = true
	}
	_, reach := findPathF(pathQuery{fn: fn, target: func(in ssa.Instruction) bool { return in == use },
		edgeBlock: func(e edge) bool { return set[e] }})
	return !reach
}

// guardedByPhi is guardedBy with one refinement: when a block branches on a
// phi of boolean constants defined in that same block (the `found := false …
// found = true; break … if !found` idiom), the branch taken is determined by
// the predecessor the path arrived from.
func guardedByPhi(fn *ssa.Function, use ssa.Instruction, passing []edge) bool {
	if len(passing) == 0 {
		return false
	}
	set := map[edge]bool{}
	for _, e := range passing {
		set[e] = true
	}
	type item struct {
		b    *ssa.BasicBlock
		from *ssa.BasicBlock
	}
	seen := map[item]bool{}
	work := []item{{fn.Blocks[0], nil}}
	for len(work) > 0 {
		it := work[len(work)-1]
		work = work[:len(work)-1]
		if seen[it] {
			continue
		}
		seen[it] = true
		for _, in := range it.b.Instrs {
			if in == use {
				return false
			}
		}
		forced := -1
		if ifi, ok := it.b.Instrs[len(it.b.Instrs)-1].(*ssa.If); ok && it.from != nil {
			cond, pol := ifi.Cond, true
			for {
				if u, ok := cond.(*ssa.UnOp); ok && u.Op == token.NOT {
					cond, pol = u.X, !pol
					continue
				}
				break
			}
			if p, ok := cond.(*ssa.Phi); ok && p.Block() == it.b {
				for k, pred := range it.b.Preds {
					if pred == it.from {
						if c, ok := p.Edges[k].(*ssa.Const); ok && c.Value != nil {
							val := c.Value.String() == "true"
							if val == pol {
								forced = 0
							} else {
								forced = 1
							}
						}
					}
				}
			}
		}
		for si, s := range it.b.Succs {
			if forced >= 0 && si != forced {
				continue
			}
			if set[edge{it.b, si}] {
				continue
			}
			work = append(work, item{s, it.b})
		}
	}
	return true
}
