package main

import (
	"fmt"
	"go/token"
	"go/types"
	"os"
	"strings"

	"golang.org/x/tools/go/ssa"
)

func checkC04(c *Ctx) (string, []string) {
	e := newOmegaEnv(c)
	if len(c.fatal) > 0 {
		return "", nil
	}
	dump := os.Getenv("JAMVERIF_DUMP") != ""
	c.Rule("C04.charge-first", "every host-call function begins with chargeGasAndCheck(&input) before any other effect and returns its out-of-gas result unchanged", 28)
	e.ruleChargeFirst("C04.charge-first", map[string]string{
		"hostCallOutOfGas": "0.7.2: selected only when gas is already negative; returns out-of-gas without charging",
		"wrapWithG$1":      "wrapper: delegates to the wrapped host call, which charges first",
	})

	c.Rule("C04.charge-amount", "chargeGasAndCheck subtracts exactly 10 from the call's gas and reports out-of-gas iff the result is negative", 3)
	if f := c.Fn("PVM", "chargeGasAndCheck"); f != nil {
		eff := effectShapes(f, nil)
		c.checkEffects("C04.charge-amount", "PVM.chargeGasAndCheck", f, eff, []string{"store p0.VM.Gas ← (*p0.VM.Gas - 10)"})
		conds := condShapes(f)
		c.Check(strings.Join(conds, ";") == "(*p0.VM.Gas < 0)", "C04.charge-amount", "PVM.chargeGasAndCheck · test", f.Pos(), "out-of-gas iff gas < 0 after the charge", "test is "+strings.Join(conds, ";"))
		oog := condEdges(f, func(v ssa.Value) (bool, bool) { return exprStr(v, shapeOpts) == "(*p0.VM.Gas < 0)", true })
		okRet := true
		allInstrs(f, func(in ssa.Instruction) {
			r, ok := in.(*ssa.Return)
			if !ok {
				return
			}
			res := retResults(r)[0]
			if cst, isC := res.(*ssa.Const); isC && cst.Value == nil {
				if guardedBy(f, in, oog) {
					okRet = false
				}
				return
			}
			flds := structLiteralFields(res)
			if flds == nil || exprStr(flds["ExitReason"], exprOpts{}) != c.constStr("PVM", "ExitOOG") || !guardedBy(f, in, oog) {
				okRet = false
			}
		})
		c.Check(okRet, "C04.charge-amount", "PVM.chargeGasAndCheck · results", f.Pos(), "ExitOOG exactly on the negative edge, nil otherwise", "results do not map gas<0 to ExitOOG and gas>=0 to nil")
	}

	ruleEngineStep(c, "C04.engine-step")

	c.Rule("C04.gas-writers", "every store to a gas cell in package PVM is one of: engine Gas-1, chargeGasAndCheck Gas-10, transfer's Gas-Gas(l) guarded by the unsigned test uint64(Gas) < l (else Gas=0 and out-of-gas), the legacy block executor's Gas-1, or construction", 4)
	gasT := c.Obj("PVM", "Gas")
	allowedStores := map[string][]string{
		"PVM.chargeGasAndCheck":                            {"(*p0.VM.Gas - 10)"},
		"(*PVM.Interpreter).SingleStepStateTransition":     {"(p0.Gas - 1)"},
		"(*PVM.Interpreter).SingleStepInvokeDecodedBlocks": {"(p0.Gas - 1)"},
		"(*PVM.Interpreter).ExecuteInstructions":           {"(p0.Gas - 1)"},
		"PVM.transfer":                                     {"(*cell(p0).VM.Gas - i64(cell(p0).VM.Registers[9]))", "0"},
	}
	for _, f := range c.SrcFuncs("PVM") {
		allInstrs(f, func(in ssa.Instruction) {
			st, ok := in.(*ssa.Store)
			if !ok || gasT == nil {
				return
			}
			pt, ok := st.Addr.Type().Underlying().(*types.Pointer)
			if !ok || !types.Identical(pt.Elem(), gasT.Type()) {
				return
			}
			if _, isAlloc := st.Addr.(*ssa.Alloc); isAlloc {
				return
			}
			if rootedInLocal(st.Addr) {
				return // construction of a fresh Interpreter/Host/VMState literal
			}
			s := exprStr(st.Val, shapeOpts)
			key := funcKey(f) + " · Gas ← " + s
			okS := false
			for _, a := range allowedStores[funcKey(f)] {
				if a == s {
					okS = true
				}
			}
			c.Check(okS, "C04.gas-writers", key, in.Pos(), "allowed gas update", "gas cell written with "+s+" in "+funcKey(f)+" — not one of the specified charges")
			if funcKey(f) == "PVM.transfer" && strings.Contains(s, "Registers[9]") {
				pass := condEdges(f, func(v ssa.Value) (bool, bool) {
					return exprStr(v, shapeOpts) == "(u64(*cell(p0).VM.Gas) < cell(p0).VM.Registers[9])", false
				})
				c.Check(guardedBy(f, in, pass), "C04.gas-writers", "PVM.transfer · unsigned affordability test", in.Pos(), "Gas -= l only after uint64(Gas) >= l", "transfer subtracts its gas limit without the unsigned test uint64(Gas) < l (limits ≥ 2^63 would add gas)")
			}
		})
	}

	c.Rule("C04.reported-usage", "R reports priorGas - max(remaining, 0) on every arm; Psi_M hands R the supplied limit and the host result, and reports 0 when the program is rejected", 2)
	if f := c.Fn("PVM", "R"); f != nil {
		rs := returnShapes(f)
		if dump {
			dumpShapes("R", rs)
		}
		c.checkShapes("C04.reported-usage", "PVM.R", f, rs, map[string][]string{"ret#0": {"i64((p0 - u64(max(*p1.VM.Gas, 0))))"}})
	}
	if f := c.Fn("PVM", "Psi_M"); f != nil {
		rs := returnShapes(f)
		if dump {
			dumpShapes("Psi_M", rs)
		}
		host := "(*PVM.Host).HostCall(PVM.NewHost(cell(PVM.DeBlobProgramCode(PVM.SingleInitializer(p0, p3)#0)#0), PVM.SingleInitializer(p0, p3)#1, cell(PVM.SingleInitializer(p0, p3)#2), i64(p2), *cell(p5), p4), p1, 0)"
		c.checkShapes("C04.reported-usage", "PVM.Psi_M", f, rs, map[string][]string{"ret.Gas": {"0", "u64(PVM.R(p2, " + host + ")#0)"}})
	}

	c.Rule("C04.limit-conversion", "an unsigned 64-bit gas limit is converted to the signed machine gas only under a guard that it is < 2^63 (otherwise the machine starts with negative gas)", 2)
	for _, fname := range []string{"Psi_M", "invoke"} {
		f := c.Fn("PVM", fname)
		if f == nil {
			continue
		}
		newHost := c.Obj("PVM", "NewHost")
		for _, call := range callsIn(f, newHost) {
			g := call.Common().Args[3]
			cv, ok := g.(*ssa.Convert)
			key := "PVM." + fname + " · gas limit handed to NewHost"
			if !ok || intTypeName(cv.X.Type()) != "u64" {
				c.OK("C04.limit-conversion", key, call.Pos(), "no unsigned→signed conversion at this site")
				continue
			}
			// guard: a dominating comparison of the same value against a bound < 2^63
			pass := condEdges(f, func(v ssa.Value) (bool, bool) {
				b, ok := v.(*ssa.BinOp)
				if !ok {
					return false, false
				}
				if sameExpr(b.X, cv.X) {
					if k, isC := constU64(b.Y); isC && k <= 1<<63 {
						switch b.Op {
						case token.LSS, token.LEQ:
							return true, true
						case token.GTR, token.GEQ:
							return true, false
						}
					}
				}
				return false, false
			})
			c.Check(guardedBy(f, call, pass), "C04.limit-conversion", key, call.Pos(), "conversion guarded by a < 2^63 test", "uint64 gas limit converted to signed Gas without a range guard: limits ≥ 2^63 become negative gas")
		}
	}
	return "Gas metering mechanisms decided on SSA: charge-first for all host calls, the exact charge (10) and its out-of-gas test, one-unit-per-dispatch in both engines (test → decrement → dispatch on every path, ExitOOG only on the Gas<1 edge), the closed set of gas writers with their value shapes and transfer's unsigned affordability test, the reported-usage formula of R and its use in Psi_M, and the unsigned→signed limit conversions. Does not decide per-host-call charge tables beyond 10+transfer, nor run any program.",
		[]string{"function-value calls that receive the Interpreter are instruction dispatches", "canonical expression rendering"}
}

// ruleEngineStep: one unit of gas per dispatched instruction in both engines.
func ruleEngineStep(c *Ctx, rule string) {
	c.Rule(rule, "in both engines every instruction dispatch is dominated by the false edge of Gas < 1 and by exactly one Gas -= 1 since the previous dispatch; ExitOOG is returned only on the true edge of Gas < 1; no other store to Gas", 8)
	for _, name := range []string{"Interpreter.SingleStepStateTransition", "Interpreter.SingleStepInvokeDecodedBlocks"} {
		f := c.Fn("PVM", name)
		if f == nil {
			continue
		}
		key := "PVM." + name
		gasField := c.Field("PVM", "Interpreter.Gas")
		isGasStore := func(in ssa.Instruction) bool {
			st, ok := in.(*ssa.Store)
			if !ok {
				return false
			}
			fa, ok := st.Addr.(*ssa.FieldAddr)
			return ok && structField(fa.X.Type(), fa.Field) == gasField
		}
		isDispatch := func(in ssa.Instruction) bool {
			call, ok := in.(*ssa.Call)
			if !ok || call.Call.IsInvoke() || call.Call.StaticCallee() != nil {
				return false
			}
			if _, isB := call.Call.Value.(*ssa.Builtin); isB {
				return false
			}
			// a call of a function value taking the interpreter
			return len(call.Call.Args) >= 1 && strings.Contains(types.TypeString(call.Call.Args[0].Type(), nil), "Interpreter")
		}
		low := condEdges(f, func(v ssa.Value) (bool, bool) { return exprStr(v, shapeOpts) == "(p0.Gas < 1)", true })
		notLow := make([]edge, len(low))
		for i, ed := range low {
			notLow[i] = edge{ed.from, 1 - ed.succ}
		}
		nd := 0
		allInstrs(f, func(in ssa.Instruction) {
			switch {
			case isGasStore(in):
				s := exprStr(in.(*ssa.Store).Val, shapeOpts)
				c.Check(s == "(p0.Gas - 1)", rule, key+" · gas store", in.Pos(), "Gas ← Gas - 1", "engine stores "+s+" into Gas, expected Gas - 1")
				c.Check(guardedBy(f, in, notLow), rule, key+" · decrement after test", in.Pos(), "decrement only after Gas >= 1 was established", "gas decremented without the Gas < 1 test")
			case isDispatch(in):
				nd++
				c.Check(guardedBy(f, in, notLow), rule, key+" · dispatch guarded", in.Pos(), "dispatch only on the Gas >= 1 edge", "an instruction can be dispatched without passing the Gas < 1 test")
				// a decrement between the (last) test edge and the dispatch, on every path
				_, skip := findPath(pathQuery{startEdges: notLow, target: func(x ssa.Instruction) bool { return x == in }, blocker: isGasStore})
				c.Check(!skip, rule, key+" · charged before dispatch", in.Pos(), "every path from the gas test to the dispatch decrements Gas", "an instruction can be dispatched without being charged")
				// at most one decrement between test and dispatch
				double := false
				allInstrs(f, func(s1 ssa.Instruction) {
					if !isGasStore(s1) {
						return
					}
					if _, again := findPath(pathQuery{start: s1, target: isGasStore, blocker: isDispatch}); again {
						double = true
					}
				})
				c.Check(!double, rule, key+" · single charge", in.Pos(), "one decrement per dispatch", "gas can be decremented twice before one dispatch")
			}
			if r, ok := in.(*ssa.Return); ok {
				res := retResults(r)
				if len(res) > 0 && exprStr(res[0], exprOpts{}) == c.constStr("PVM", "ExitOOG") {
					c.Check(guardedBy(f, in, low), rule, key+" · OOG exit", in.Pos(), "ExitOOG only when Gas < 1", "engine returns out-of-gas on a path that did not find Gas < 1")
				}
			}
		})
		c.Check(nd >= 1, rule, key+" · dispatch found", f.Pos(), fmt.Sprintf("%d dispatch site(s)", nd), "no instruction dispatch found in the engine")
	}

}
