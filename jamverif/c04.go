package main

import (
	"fmt"
	"go/constant"
	"go/token"
	"go/types"
	"os"
	"sort"
	"strings"

	"golang.org/x/tools/go/ssa"
)

func checkC04(c *Ctx) (string, []string) {
	e := newOmegaEnv(c)
	if len(c.fatal) > 0 {
		return "", nil
	}
	dump := os.Getenv("JAMVERIF_DUMP") != ""
	c.Rule("C04.charge-first", "every host-call function begins with chargeGasAndCheck(&input) before any other effect and returns its out-of-gas result unchanged", 28)
	e.ruleChargeFirst("C04.charge-first", map[string]string{
		"hostCallOutOfGas": "0.7.2: selected only when gas is already negative; returns out-of-gas without charging",
		"wrapWithG$1":      "wrapper: delegates to the wrapped host call, which charges first",
	})

	c.Rule("C04.charge-amount", "chargeGasAndCheck subtracts exactly 10 from the call's gas and reports out-of-gas iff the result is negative", 3)
	if f := c.Fn("PVM", "chargeGasAndCheck"); f != nil {
		eff := effectShapes(f, nil)
		c.checkEffects("C04.charge-amount", "PVM.chargeGasAndCheck", f, eff, []string{"store p0.VM.Gas ← (*p0.VM.Gas - 10)"})
		// the tested quantity: the gas cell after the store, or the value that is stored
		atoms := condAtoms(f, shapeOpts)
		q := ""
		for _, a := range atoms {
			switch a {
			case "(*p0.VM.Gas < 0)":
				q = "*p0.VM.Gas"
			case "((*p0.VM.Gas - 10) < 0)":
				q = "(*p0.VM.Gas - 10)"
			}
		}
		c.Check(q != "" && len(atoms) == 1, "C04.charge-amount", "PVM.chargeGasAndCheck · test", f.Pos(), "one test: the charged gas against 0", "test is "+strings.Join(atoms, ";"))
		okRet := q != ""
		for neg := int64(0); neg <= 1 && q != ""; neg++ {
			r, ok := runWithAtoms(f, shapeOpts, func(s string) (int64, bool) {
				switch s {
				case "(" + q + " < 0)":
					return neg, true
				case "(0 <= " + q + ")":
					return 1 - neg, true
				}
				return 0, false
			}, nil)
			if !ok {
				okRet = false
				break
			}
			res := retResults(r)[0]
			isNil := false
			if cst, isC := res.(*ssa.Const); isC && cst.Value == nil {
				isNil = true
			}
			if neg == 0 && !isNil {
				okRet = false
			}
			if neg == 1 {
				flds := structLiteralFields(res)
				if isNil || flds == nil || exprStr(flds["ExitReason"], exprOpts{}) != c.constStr("PVM", "ExitOOG") {
					okRet = false
				}
			}
		}
		c.Check(okRet, "C04.charge-amount", "PVM.chargeGasAndCheck · results", f.Pos(), "ExitOOG exactly when the charged gas is negative, nil otherwise (2/2 rows)", "results do not map gas<0 to ExitOOG and gas>=0 to nil")
	}

	ruleEngineStep(c, "C04.engine-step")

	c.Rule("C04.gas-writers", "every store to a gas cell in package PVM is one of: engine Gas-1, chargeGasAndCheck Gas-10, transfer's Gas-Gas(l) guarded by the unsigned test uint64(Gas) < l (else Gas=0 and out-of-gas), the legacy block executor's Gas-1, or construction", 4)
	gasT := c.Obj("PVM", "Gas")
	allowedStores := map[string][]string{
		"PVM.chargeGasAndCheck":                            {"(*p0.VM.Gas - 10)"},
		"(*PVM.Interpreter).SingleStepStateTransition":     {"(p0.Gas - 1)"},
		"(*PVM.Interpreter).SingleStepInvokeDecodedBlocks": {"(p0.Gas - 1)"},
		"(*PVM.Interpreter).ExecuteInstructions":           {"(p0.Gas - 1)"},
		"PVM.transfer":                                     {"(*cell(p0).VM.Gas - i64(cell(p0).VM.Registers[9]))", "0"},
	}
	isGasCellStore := func(in ssa.Instruction) (*ssa.Store, bool) {
		st, ok := in.(*ssa.Store)
		if !ok || gasT == nil {
			return nil, false
		}
		pt, ok := st.Addr.Type().Underlying().(*types.Pointer)
		if !ok || !types.Identical(pt.Elem(), gasT.Type()) {
			return nil, false
		}
		if _, isAlloc := st.Addr.(*ssa.Alloc); isAlloc {
			return nil, false
		}
		if rootedInLocal(st.Addr) {
			return nil, false // construction of a fresh Interpreter/Host/VMState literal
		}
		return st, true
	}
	// the specified writers, each with the unexported helpers it calls seen through (their stores are the writer's, in the writer's terms)
	ho := shapeOpts
	ho.inline = func(g *ssa.Function) bool {
		if g == nil || len(g.Blocks) == 0 || g.Pkg == nil || g.Pkg.Pkg.Path() != modPath+"/PVM" || token.IsExported(g.Name()) {
			return false
		}
		_, isWriter := allowedStores[funcKey(g)]
		return !isWriter
	}
	attributed := map[ssa.Instruction]bool{}
	var writers []string
	for k := range allowedStores {
		writers = append(writers, k)
	}
	sort.Strings(writers)
	for _, wk := range writers {
		var wf *ssa.Function
		for _, f := range c.SrcFuncs("PVM") {
			if funcKey(f) == wk {
				wf = f
			}
		}
		if wf == nil {
			continue
		}
		visitWithHelpers(wf, ho, func(g *ssa.Function, subst map[ssa.Value]string, in ssa.Instruction) {
			st, ok := isGasCellStore(in)
			if !ok {
				return
			}
			attributed[in] = true
			s := exprStrSubst(st.Val, shapeOpts, subst)
			key := wk + " · Gas ← " + s
			okS := false
			for _, a := range allowedStores[wk] {
				if a == s {
					okS = true
				}
			}
			c.Check(okS, "C04.gas-writers", key, in.Pos(), "allowed gas update", "gas cell written with "+s+" in "+funcKey(g)+" (reached from "+wk+") — not one of the specified charges")
			if wk == "PVM.transfer" && strings.Contains(s, "Registers[9]") {
				pass := condEdges(g, func(v ssa.Value) (bool, bool) {
					return exprStrSubst(v, shapeOpts, subst) == "(u64(*cell(p0).VM.Gas) < cell(p0).VM.Registers[9])", false
				})
				c.Check(guardedBy(g, in, pass), "C04.gas-writers", "PVM.transfer · unsigned affordability test", in.Pos(), "Gas -= l only after uint64(Gas) >= l", "transfer subtracts its gas limit without the unsigned test uint64(Gas) < l (limits ≥ 2^63 would add gas)")
				// the extra gas l is looked at only for a transfer that is going to be accepted: a refused transfer
				// (WHO, LOW, CASH) costs the flat charge, so no refusal may follow the test of l against the remaining gas
				refusal := map[int64]string{}
				for _, nm := range []string{"WHO", "LOW", "CASH"} {
					if k, isK := c.Obj("PVM", nm).(*types.Const); isK {
						if u, exact := constant.Uint64Val(k.Val()); exact {
							refusal[int64(u)] = nm
						}
					}
				}
				late := ""
				for _, b := range g.Blocks {
					ifi, isIf := b.Instrs[len(b.Instrs)-1].(*ssa.If)
					if !isIf || exprStrSubst(ifi.Cond, shapeOpts, subst) != "(u64(*cell(p0).VM.Gas) < cell(p0).VM.Registers[9])" {
						continue
					}
					if hit, found := findPath(pathQuery{start: ifi, target: func(y ssa.Instruction) bool {
						st, isSt := y.(*ssa.Store)
						if !isSt {
							return false
						}
						if _, kreg, isC, isReg := e.registerStore(y); !isReg || !isC || kreg != 7 {
							return false
						}
						k, isK := constInt(st.Val)
						_, isRef := refusal[k]
						return isK && isRef
					}}); found {
						k, _ := constInt(hit.(*ssa.Store).Val)
						late = refusal[k] + " at " + c.pos(hit.Pos())
					}
				}
				c.Check(late == "", "C04.gas-writers", "PVM.transfer · extra gas only for accepted transfers", in.Pos(), "no refusal (WHO, LOW, CASH) is reachable after the test of l against the remaining gas", "a refusal ("+late+") can follow the test of l against the remaining gas: a transfer that is refused anyway ends the invocation out of gas (all gas consumed) when its l exceeds the gas left")
			}
		})
	}
	for _, f := range c.SrcFuncs("PVM") {
		allInstrs(f, func(in ssa.Instruction) {
			st, ok := isGasCellStore(in)
			if !ok || attributed[in] {
				return
			}
			s := exprStr(st.Val, shapeOpts)
			c.Bad("C04.gas-writers", funcKey(f)+" · Gas ← "+s, in.Pos(), "gas cell written with %s in %s — not one of the specified writers (engine step, host-call charge, transfer's extra gas) nor a helper they call", s, funcKey(f))
		})
	}

	c.Rule("C04.reported-usage", "R reports priorGas - max(remaining, 0) on every arm; Psi_M hands R the supplied limit and the host result, and reports 0 when the program is rejected", 2)
	if f := c.Fn("PVM", "R"); f != nil {
		rs := returnShapes(f)
		if dump {
			dumpShapes("R", rs)
		}
		_ = rs
		bad := ""
		nret := 0
		allInstrs(f, func(in ssa.Instruction) {
			r, ok := in.(*ssa.Return)
			if !ok || bad != "" {
				return
			}
			nret++
			for _, g := range []int64{-5, -1, 0, 1, 7} {
				env := intEnv{params: map[ssa.Value]int64{f.Params[0]: 100}, lens: map[ssa.Value]int64{}, unknown: map[ssa.Value]bool{}, cells: map[ssa.Value]int64{}}
				env.opaque = func(v ssa.Value) (int64, bool) {
					if exprStr(v, shapeOpts) == "*p1.VM.Gas" {
						return g, true
					}
					return 0, false
				}
				got, ok := evalInt(retResults(r)[0], env, 0)
				want := 100 - max(g, 0)
				if !ok {
					bad = "the reported usage " + exprStr(retResults(r)[0], shapeOpts) + " is not a function of (supplied gas, remaining gas)"
				} else if got != want {
					bad = fmt.Sprintf("with 100 gas supplied and %d remaining R reports %d used; GP reports supplied − max(remaining, 0) = %d", g, got, want)
				}
				if bad != "" {
					break
				}
			}
		})
		c.Check(bad == "" && nret > 0, "C04.reported-usage", "PVM.R · ret#0", f.Pos(), "every arm reports supplied − max(remaining, 0) (evaluated for remaining ∈ {−5, −1, 0, 1, 7})", bad)
	}
	if f := c.Fn("PVM", "Psi_M"); f != nil {
		rs := returnShapes(f)
		if dump {
			dumpShapes("Psi_M", rs)
		}
		host := "(*PVM.Host).HostCall(PVM.NewHost(cell(PVM.DeBlobProgramCode(PVM.SingleInitializer(p0, p3)#0)#0), PVM.SingleInitializer(p0, p3)#1, cell(PVM.SingleInitializer(p0, p3)#2), i64(p2), *cell(p5), p4), p1, 0)"
		c.checkShapes("C04.reported-usage", "PVM.Psi_M", f, rs, map[string][]string{"ret.Gas": {"0", "u64(PVM.R(p2, " + host + ")#0)"}})
	}

	c.Rule("C04.limit-conversion", "an unsigned 64-bit gas limit is converted to the signed machine gas only under a guard that it is < 2^63 (otherwise the machine starts with negative gas)", 2)
	for _, fname := range []string{"Psi_M", "invoke"} {
		f := c.Fn("PVM", fname)
		if f == nil {
			continue
		}
		newHost := c.Obj("PVM", "NewHost")
		for _, call := range callsIn(f, newHost) {
			g := call.Common().Args[3]
			cv, ok := g.(*ssa.Convert)
			key := "PVM." + fname + " · gas limit handed to NewHost"
			if !ok || intTypeName(cv.X.Type()) != "u64" {
				c.OK("C04.limit-conversion", key, call.Pos(), "no unsigned→signed conversion at this site")
				continue
			}
			// guard: a dominating comparison of the same value against a bound < 2^63
			pass := condEdges(f, func(v ssa.Value) (bool, bool) {
				b, ok := v.(*ssa.BinOp)
				if !ok {
					return false, false
				}
				if sameExpr(b.X, cv.X) {
					if k, isC := constU64(b.Y); isC && k <= 1<<63 {
						switch b.Op {
						case token.LSS, token.LEQ:
							return true, true
						case token.GTR, token.GEQ:
							return true, false
						}
					}
				}
				return false, false
			})
			c.Check(guardedBy(f, call, pass), "C04.limit-conversion", key, call.Pos(), "conversion guarded by a < 2^63 test", "uint64 gas limit converted to signed Gas without a range guard: limits ≥ 2^63 become negative gas")
		}
	}
	return "Gas metering mechanisms decided on SSA: charge-first for all host calls, the exact charge (10) and its out-of-gas test, one-unit-per-dispatch in both engines (test → decrement → dispatch on every path, ExitOOG only on the Gas<1 edge), the closed set of gas writers with their value shapes and transfer's unsigned affordability test, the reported-usage formula of R and its use in Psi_M, and the unsigned→signed limit conversions. Does not decide per-host-call charge tables beyond 10+transfer, nor run any program.",
		[]string{"function-value calls that receive the Interpreter are instruction dispatches", "canonical expression rendering"}
}

// ruleEngineStep: one unit of gas per dispatched instruction in both engines.
func ruleEngineStep(c *Ctx, rule string) {
	c.Rule(rule, "in both engines every instruction dispatch is dominated by the false edge of Gas < 1 and by exactly one Gas -= 1 since the previous dispatch; ExitOOG is returned only on the true edge of Gas < 1; no other store to Gas", 8)
	for _, name := range []string{"Interpreter.SingleStepStateTransition", "Interpreter.SingleStepInvokeDecodedBlocks"} {
		f := c.Fn("PVM", name)
		if f == nil {
			continue
		}
		key := "PVM." + name
		gasField := c.Field("PVM", "Interpreter.Gas")
		isGasStore := func(in ssa.Instruction) bool {
			st, ok := in.(*ssa.Store)
			if !ok {
				return false
			}
			fa, ok := st.Addr.(*ssa.FieldAddr)
			return ok && structField(fa.X.Type(), fa.Field) == gasField
		}
		isDispatch := func(in ssa.Instruction) bool {
			call, ok := in.(*ssa.Call)
			if !ok || call.Call.IsInvoke() || call.Call.StaticCallee() != nil {
				return false
			}
			if _, isB := call.Call.Value.(*ssa.Builtin); isB {
				return false
			}
			// a call of a function value taking the interpreter
			return len(call.Call.Args) >= 1 && strings.Contains(types.TypeString(call.Call.Args[0].Type(), nil), "Interpreter")
		}
		// the out-of-gas test: a comparison of the (signed) gas counter with a constant whose solution set is exactly
		// {g : g < 1}, in either polarity and either operand order (g < 1, g <= 0, !(g >= 1), !(g > 0), …)
		isGasLoad := func(v ssa.Value) bool {
			u, ok := stripIntConv(v).(*ssa.UnOp)
			if !ok || u.Op != token.MUL {
				return false
			}
			fa, ok := u.X.(*ssa.FieldAddr)
			return ok && structField(fa.X.Type(), fa.Field) == gasField
		}
		lowTest := func(v ssa.Value) (bool, bool) {
			b, ok := v.(*ssa.BinOp)
			if !ok {
				return false, false
			}
			op, x, y := b.Op, b.X, b.Y
			if isGasLoad(y) {
				x, y = y, x
				op = map[token.Token]token.Token{token.LSS: token.GTR, token.GTR: token.LSS, token.LEQ: token.GEQ, token.GEQ: token.LEQ, token.EQL: token.EQL, token.NEQ: token.NEQ}[op]
			}
			k, isC := constInt(y)
			if !isGasLoad(x) || !isC || isUnsignedT(x.Type()) {
				return false, false
			}
			switch {
			case op == token.LSS && k == 1, op == token.LEQ && k == 0:
				return true, true
			case op == token.GEQ && k == 1, op == token.GTR && k == 0:
				return true, false
			}
			return false, false
		}
		low := condEdges(f, lowTest)
		// the charge may be a helper method: it must leave Gas alone and report failure when Gas < 1, and otherwise store Gas - 1 and report success
		var chargeHelper *ssa.Function
		allInstrs(f, func(in ssa.Instruction) {
			if call, ok := in.(*ssa.Call); ok && len(low) == 0 {
				if h := call.Call.StaticCallee(); h != nil && h.Signature.Recv() != nil && len(h.Blocks) > 0 && h.Pkg == f.Pkg && h.Signature.Results().Len() == 1 && isBoolT(h.Signature.Results().At(0).Type()) {
					hasStore := false
					allInstrs(h, func(x ssa.Instruction) {
						if isGasStore(x) {
							hasStore = true
						}
					})
					if hasStore {
						chargeHelper = h
					}
				}
			}
		})
		helperCharge := func(in ssa.Instruction) bool {
			call, ok := in.(*ssa.Call)
			return ok && chargeHelper != nil && call.Call.StaticCallee() == chargeHelper
		}
		if chargeHelper != nil {
			h := chargeHelper
			hkey := "PVM." + h.Name()
			hlow := condEdges(h, lowTest)
			hnot := make([]edge, len(hlow))
			for i, ed := range hlow {
				hnot[i] = edge{ed.from, 1 - ed.succ}
			}
			okH := len(hlow) == 1
			allInstrs(h, func(x ssa.Instruction) {
				if isGasStore(x) {
					if exprStr(x.(*ssa.Store).Val, shapeOpts) != "(p0.Gas - 1)" || !guardedBy(h, x, hnot) {
						okH = false
					}
				}
				if r, isR := x.(*ssa.Return); isR {
					k, isC := r.Results[0].(*ssa.Const)
					if !isC || k.Value == nil {
						okH = false
						return
					}
					if k.Value.String() == "true" {
						// success only after the decrement
						if _, skip := findPath(pathQuery{fn: h, target: func(y ssa.Instruction) bool { return y == x }, blocker: isGasStore}); skip || !guardedBy(h, x, hnot) {
							okH = false
						}
					} else {
						// failure only on Gas < 1 and without a store
						if !guardedBy(h, x, hlow) {
							okH = false
						}
						if _, viaStore := findPath(pathQuery{fn: h, target: func(y ssa.Instruction) bool { return y == x }, blocker: func(y ssa.Instruction) bool { return false }}); viaStore {
							// reachable: make sure no store lies on a path to it
							for _, b := range h.Blocks {
								for _, y := range b.Instrs {
									if isGasStore(y) {
										if _, after := findPath(pathQuery{start: y, target: func(z ssa.Instruction) bool { return z == x }}); after {
											okH = false
										}
									}
								}
							}
						}
					}
				}
			})
			c.Check(okH, rule, hkey+" · charge step", h.Pos(), "Gas < 1 ⇒ failure, Gas untouched; otherwise Gas ← Gas − 1 and success", "the charge helper does not test Gas < 1 before decrementing by exactly one, or reports success without charging")
			// in the engine: success edge of the helper's result
			low = condEdges(f, func(v ssa.Value) (bool, bool) {
				if call, ok := v.(*ssa.Call); ok && call.Call.StaticCallee() == h {
					return true, false
				}
				if u, ok := v.(*ssa.UnOp); ok && u.Op == token.NOT {
					if call, ok := u.X.(*ssa.Call); ok && call.Call.StaticCallee() == h {
						return true, true
					}
				}
				return false, false
			})
		}
		notLow := make([]edge, len(low))
		for i, ed := range low {
			notLow[i] = edge{ed.from, 1 - ed.succ}
		}
		nd := 0
		allInstrs(f, func(in ssa.Instruction) {
			switch {
			case isGasStore(in):
				s := exprStr(in.(*ssa.Store).Val, shapeOpts)
				c.Check(s == "(p0.Gas - 1)", rule, key+" · gas store", in.Pos(), "Gas ← Gas - 1", "engine stores "+s+" into Gas, expected Gas - 1")
				c.Check(guardedBy(f, in, notLow), rule, key+" · decrement after test", in.Pos(), "decrement only after Gas >= 1 was established", "gas decremented without the Gas < 1 test")
			case isDispatch(in):
				nd++
				c.Check(guardedBy(f, in, notLow), rule, key+" · dispatch guarded", in.Pos(), "dispatch only on the Gas >= 1 edge", "an instruction can be dispatched without passing the Gas < 1 test")
				// a decrement between the (last) test edge and the dispatch, on every path (with a charge helper the decrement precedes its success edge)
				skip := false
				if chargeHelper == nil && len(notLow) > 0 {
					_, skip = findPath(pathQuery{startEdges: notLow, target: func(x ssa.Instruction) bool { return x == in }, blocker: isGasStore})
				}
				c.Check(!skip && len(notLow) > 0, rule, key+" · charged before dispatch", in.Pos(), "every path from the gas test to the dispatch decrements Gas", "an instruction can be dispatched without being charged")
				// at most one decrement between test and dispatch
				double := false
				allInstrs(f, func(s1 ssa.Instruction) {
					if !isGasStore(s1) && !helperCharge(s1) {
						return
					}
					if _, again := findPath(pathQuery{start: s1, target: func(y ssa.Instruction) bool { return isGasStore(y) || helperCharge(y) }, blocker: isDispatch}); again {
						double = true
					}
				})
				c.Check(!double, rule, key+" · single charge", in.Pos(), "one decrement per dispatch", "gas can be decremented twice before one dispatch")
			}
			if r, ok := in.(*ssa.Return); ok {
				res := retResults(r)
				if len(res) > 0 && exprStr(res[0], exprOpts{}) == c.constStr("PVM", "ExitOOG") {
					c.Check(guardedBy(f, in, low), rule, key+" · OOG exit", in.Pos(), "ExitOOG only when Gas < 1", "engine returns out-of-gas on a path that did not find Gas < 1")
				}
			}
		})
		c.Check(nd >= 1, rule, key+" · dispatch found", f.Pos(), fmt.Sprintf("%d dispatch site(s)", nd), "no instruction dispatch found in the engine")
	}

}
