package main

import (
	"fmt"
	"go/ast"
	"go/token"
	"go/types"
	"strings"

	"golang.org/x/tools/go/packages"
)

// E9: iteration-order independence of map ranges (AST + types).

type moEffect struct {
	kind   string // product | lastwriter | sink | earlyexit | goroutine-product
	obj    types.Object
	name   string // printable
	typ    string // type string of the product (stable under local renames)
	pos    token.Pos
	detail string
}

type moScope struct {
	c        *Ctx
	rule     string
	reviewed map[string]string // "Func · type" -> reason (order-insensitive consumer, confirmed by reading)
	// functions whose result is an unordered product (discovered)
	unordered map[*types.Func]string
}

var sortFuncs = map[string]bool{
	"sort.Slice": true, "sort.SliceStable": true, "sort.Sort": true, "sort.Stable": true, "sort.Strings": true, "sort.Ints": true,
	"slices.Sort": true, "slices.SortFunc": true, "slices.SortStableFunc": true,
}

var orderFreeCallees = map[string]bool{
	"maps.Copy": true, "delete": true, "len": true, "cap": true, "copy": true, "panic": true, "print": true, "println": true,
	"(*sync.WaitGroup).Add": true, "(*sync.WaitGroup).Done": true, "(*sync.Mutex).Lock": true, "(*sync.Mutex).Unlock": true,
	"(*sync.RWMutex).Lock": true, "(*sync.RWMutex).Unlock": true, "(*sync.RWMutex).RLock": true, "(*sync.RWMutex).RUnlock": true,
}

func calleeName(info *types.Info, call *ast.CallExpr) (string, types.Object) {
	var id *ast.Ident
	switch f := call.Fun.(type) {
	case *ast.Ident:
		id = f
	case *ast.SelectorExpr:
		id = f.Sel
	case *ast.IndexExpr:
		if s, ok := f.X.(*ast.SelectorExpr); ok {
			id = s.Sel
		} else if i, ok := f.X.(*ast.Ident); ok {
			id = i
		}
	}
	if id == nil {
		return "", nil
	}
	o := info.Uses[id]
	if o == nil {
		return id.Name, nil
	}
	if fn, ok := o.(*types.Func); ok {
		return fn.FullName(), o
	}
	if _, ok := o.(*types.Builtin); ok {
		return o.Name(), o
	}
	return o.Name(), o
}

func exprText(fset *token.FileSet, e ast.Expr) string {
	return types.ExprString(e)
}

// rootObj returns the variable object at the root of an lvalue expression
// (x, x.f, x[i], *x ...).
func rootObj(info *types.Info, e ast.Expr) types.Object {
	for {
		switch x := e.(type) {
		case *ast.Ident:
			if o := info.Uses[x]; o != nil {
				return o
			}
			return info.Defs[x]
		case *ast.SelectorExpr:
			// package-qualified?
			if id, ok := x.X.(*ast.Ident); ok {
				if _, isPkg := info.Uses[id].(*types.PkgName); isPkg {
					return info.Uses[x.Sel]
				}
			}
			e = x.X
		case *ast.IndexExpr:
			e = x.X
		case *ast.StarExpr:
			e = x.X
		case *ast.ParenExpr:
			e = x.X
		case *ast.CallExpr:
			return nil
		default:
			return nil
		}
	}
}

func declaredWithin(o types.Object, n ast.Node) bool {
	return o != nil && o.Pos() >= n.Pos() && o.Pos() <= n.End()
}

func isIntegerType(t types.Type) bool {
	if t == nil {
		return false
	}
	b, ok := t.Underlying().(*types.Basic)
	return ok && b.Info()&types.IsInteger != 0
}

func isConstExpr(info *types.Info, e ast.Expr) bool {
	tv, ok := info.Types[e]
	if ok && tv.Value != nil {
		return true
	}
	if id, ok := e.(*ast.Ident); ok && (id.Name == "nil" || id.Name == "true" || id.Name == "false") {
		return true
	}
	return false
}

func mentions(info *types.Info, e ast.Node, objs map[types.Object]bool) bool {
	found := false
	ast.Inspect(e, func(n ast.Node) bool {
		if id, ok := n.(*ast.Ident); ok {
			if o := info.Uses[id]; o != nil && objs[o] {
				found = true
			}
		}
		return !found
	})
	return found
}

// loopEffects classifies the order-relevant effects of the body of a range over a map.
func (s *moScope) loopEffects(p *packages.Package, rs *ast.RangeStmt) []moEffect {
	info := p.TypesInfo
	var out []moEffect
	// objects that vary per iteration: key, value and anything declared in the body
	varying := func(o types.Object) bool { return declaredWithin(o, rs) }
	var walk func(n ast.Node, inGo bool)
	lhsEffect := func(lhs ast.Expr, tok token.Token, rhs ast.Expr, inGo bool, pos token.Pos) {
		root := rootObj(info, lhs)
		if root == nil || varying(root) {
			return
		}
		if _, isBlank := lhs.(*ast.Ident); isBlank && lhs.(*ast.Ident).Name == "_" {
			return
		}
		lt := info.TypeOf(lhs)
		if lt != nil && types.TypeString(lt, nil) == "error" {
			return // which error is reported first is not part of any state
		}
		// keyed writes into maps: order-free
		if ix, ok := lhs.(*ast.IndexExpr); ok {
			if xt := info.TypeOf(ix.X); xt != nil {
				if _, isMap := xt.Underlying().(*types.Map); isMap {
					return
				}
				// slice/array element keyed by a per-iteration index
				vary := map[types.Object]bool{}
				ast.Inspect(ix.Index, func(n ast.Node) bool {
					if id, ok := n.(*ast.Ident); ok {
						if o := info.Uses[id]; o != nil && varying(o) {
							vary[o] = true
						}
					}
					return true
				})
				if len(vary) > 0 {
					return
				}
			}
		}
		// x = append(x, ...)
		if call, ok := rhs.(*ast.CallExpr); ok {
			if name, _ := calleeName(info, call); name == "append" && len(call.Args) > 0 && exprText(p.Fset, call.Args[0]) == exprText(p.Fset, lhs) {
				kind := "product"
				if inGo {
					kind = "goroutine-product"
				}
				out = append(out, moEffect{kind: kind, obj: root, name: exprText(p.Fset, lhs), typ: typeStr(lt), pos: pos})
				return
			}
		}
		switch tok {
		case token.ADD_ASSIGN, token.OR_ASSIGN, token.AND_ASSIGN, token.XOR_ASSIGN, token.MUL_ASSIGN, token.SUB_ASSIGN:
			if isIntegerType(lt) {
				return
			}
			out = append(out, moEffect{kind: "lastwriter", obj: root, name: exprText(p.Fset, lhs), typ: typeStr(lt), pos: pos, detail: "non-integer accumulation " + tok.String()})
			return
		}
		if rhs != nil && isConstExpr(info, rhs) {
			return
		}
		out = append(out, moEffect{kind: "lastwriter", obj: root, name: exprText(p.Fset, lhs), typ: typeStr(lt), pos: pos, detail: "assignment to a variable that outlives the iteration"})
	}
	walk = func(n ast.Node, inGo bool) {
		if n == nil {
			return
		}
		switch x := n.(type) {
		case *ast.BlockStmt:
			for _, st := range x.List {
				walk(st, inGo)
			}
		case *ast.AssignStmt:
			if x.Tok == token.DEFINE {
				for _, r := range x.Rhs {
					walkCalls(s, p, rs, r, inGo, &out, walk)
				}
				return
			}
			for i, l := range x.Lhs {
				var r ast.Expr
				if len(x.Rhs) == len(x.Lhs) {
					r = x.Rhs[i]
				} else if len(x.Rhs) == 1 {
					r = x.Rhs[0]
				}
				lhsEffect(l, x.Tok, r, inGo, x.Pos())
			}
			for _, r := range x.Rhs {
				walkCalls(s, p, rs, r, inGo, &out, walk)
			}
		case *ast.IncDecStmt:
			// integer ++/-- commutative
		case *ast.ExprStmt:
			walkCalls(s, p, rs, x.X, inGo, &out, walk)
		case *ast.GoStmt:
			if fl, ok := x.Call.Fun.(*ast.FuncLit); ok {
				walk(fl.Body, true)
			} else {
				walkCalls(s, p, rs, x.Call, true, &out, walk)
			}
		case *ast.DeferStmt:
			walkCalls(s, p, rs, x.Call, inGo, &out, walk)
		case *ast.IfStmt:
			walk(x.Init, inGo)
			walkCalls(s, p, rs, x.Cond, inGo, &out, walk)
			walk(x.Body, inGo)
			walk(x.Else, inGo)
		case *ast.ForStmt:
			walk(x.Init, inGo)
			walk(x.Post, inGo)
			walk(x.Body, inGo)
		case *ast.RangeStmt:
			walk(x.Body, inGo)
		case *ast.SwitchStmt:
			walk(x.Init, inGo)
			walk(x.Body, inGo)
		case *ast.TypeSwitchStmt:
			walk(x.Body, inGo)
		case *ast.CaseClause:
			for _, st := range x.Body {
				walk(st, inGo)
			}
		case *ast.SelectStmt:
			walk(x.Body, inGo)
		case *ast.CommClause:
			for _, st := range x.Body {
				walk(st, inGo)
			}
		case *ast.LabeledStmt:
			walk(x.Stmt, inGo)
		case *ast.SendStmt:
			out = append(out, moEffect{kind: "sink", name: "channel send", pos: x.Pos(), detail: "values sent in iteration order"})
		case *ast.ReturnStmt:
			if inGo {
				return
			}
			// returning something that depends on which element was met first
			vary := false
			for _, r := range x.Results {
				if rt := info.TypeOf(r); rt != nil && (types.TypeString(rt, nil) == "error" || strings.HasSuffix(types.TypeString(rt, nil), "types.ErrorCode")) {
					continue // error identity (which offending element is named) is not state
				}
				ast.Inspect(r, func(n ast.Node) bool {
					if id, ok := n.(*ast.Ident); ok {
						if o := info.Uses[id]; o != nil && varying(o) {
							if _, isVar := o.(*types.Var); isVar {
								vary = true
							}
						}
					}
					return true
				})
			}
			if vary {
				out = append(out, moEffect{kind: "earlyexit", name: "return", pos: x.Pos(), detail: "returns a value derived from the first matching element"})
			}
		case *ast.BranchStmt, *ast.DeclStmt, *ast.EmptyStmt:
		}
	}
	walk(rs.Body, false)
	return out
}

func typeStr(t types.Type) string {
	if t == nil {
		return "?"
	}
	return relName(types.TypeString(t, nil))
}

// walkCalls inspects calls inside an expression: closures passed to
// goroutine launchers (errgroup.Go) are walked as goroutine bodies; calls
// that hand an outer reference to an order-sensitive callee are sinks.
func walkCalls(s *moScope, p *packages.Package, rs *ast.RangeStmt, e ast.Node, inGo bool, out *[]moEffect, walk func(ast.Node, bool)) {
	if e == nil {
		return
	}
	info := p.TypesInfo
	ast.Inspect(e, func(n ast.Node) bool {
		switch x := n.(type) {
		case *ast.FuncLit:
			return false
		case *ast.CallExpr:
			name, _ := calleeName(info, x)
			// goroutine launchers
			if strings.HasSuffix(name, "errgroup.Group).Go") || strings.HasSuffix(name, "errgroup.Group).TryGo") {
				for _, a := range x.Args {
					if fl, ok := a.(*ast.FuncLit); ok {
						walk(fl.Body, true)
					}
				}
				return false
			}
			if orderFreeCallees[name] || name == "append" {
				return true
			}
			// method call on / argument of an outer writer-like object
			if sel, ok := x.Fun.(*ast.SelectorExpr); ok {
				recvT := info.TypeOf(sel.X)
				if recvT != nil && isWriterLike(recvT) {
					root := rootObj(info, sel.X)
					if root != nil && !declaredWithin(root, rs) {
						*out = append(*out, moEffect{kind: "sink", obj: root, name: exprText(p.Fset, sel.X) + "." + sel.Sel.Name, typ: typeStr(recvT), pos: x.Pos(), detail: "writes to an encoder/writer/hash in iteration order"})
					}
				}
			}
			for _, a := range x.Args {
				at := info.TypeOf(a)
				if at != nil && isWriterLike(at) {
					root := rootObj(info, a)
					if root != nil && !declaredWithin(root, rs) {
						*out = append(*out, moEffect{kind: "sink", obj: root, name: name + "(" + exprText(p.Fset, a) + ")", typ: typeStr(at), pos: x.Pos(), detail: "passes an encoder/writer/hash to a callee in iteration order"})
					}
				}
			}
		}
		return true
	})
}

// isWriterLike: *Encoder types of the repo, io.Writer, hash.Hash, bytes.Buffer, strings.Builder.
func isWriterLike(t types.Type) bool {
	ts := types.TypeString(t, nil)
	switch {
	case strings.HasSuffix(ts, "types.Encoder"), strings.HasSuffix(ts, "bytes.Buffer"), strings.HasSuffix(ts, "strings.Builder"),
		ts == "io.Writer", ts == "hash.Hash", strings.HasSuffix(ts, "bufio.Writer"):
		return true
	}
	return false
}

// firstUseAfter finds the first reference to the expression named `name`
// (rooted at obj) positioned after `after` inside fn, and reports whether
// that reference is the first argument of a sort call.
func sortedAfter(p *packages.Package, body *ast.BlockStmt, obj types.Object, name string, after token.Pos) (sorted bool, usePos token.Pos, useDesc string) {
	info := p.TypesInfo
	type use struct {
		pos    token.Pos
		sorted bool
		desc   string
	}
	var best *use
	var stack []ast.Node
	ast.Inspect(body, func(n ast.Node) bool {
		if n == nil {
			stack = stack[:len(stack)-1]
			return true
		}
		stack = append(stack, n)
		id, ok := n.(*ast.Ident)
		if !ok || id.Pos() <= after || info.Uses[id] != obj {
			return true
		}
		// find the enclosing expression that prints as name
		u := use{pos: id.Pos(), desc: "other use"}
		for i := len(stack) - 1; i >= 0; i-- {
			if call, ok := stack[i].(*ast.CallExpr); ok {
				cn, _ := calleeName(info, call)
				if sortFuncs[cn] && len(call.Args) > 0 {
					arg := call.Args[0]
					// sort.Sort(T(x))
					if conv, ok := arg.(*ast.CallExpr); ok && len(conv.Args) == 1 {
						arg = conv.Args[0]
					}
					if types.ExprString(arg) == name {
						u.sorted = true
						u.desc = cn
					}
				}
				break
			}
		}
		if best == nil || u.pos < best.pos {
			best = &u
		}
		return true
	})
	if best == nil {
		return false, token.NoPos, "never used again"
	}
	return best.sorted, best.pos, best.desc
}

// enclosingFuncBody returns the body of the innermost function (decl or literal) containing pos.
func enclosingFunc(file *ast.File, pos token.Pos) (body *ast.BlockStmt, name string, decl *ast.FuncDecl) {
	for _, d := range file.Decls {
		fd, ok := d.(*ast.FuncDecl)
		if !ok || fd.Body == nil || pos < fd.Pos() || pos > fd.End() {
			continue
		}
		body, name, decl = fd.Body, fd.Name.Name, fd
		if fd.Recv != nil && len(fd.Recv.List) > 0 {
			name = types.ExprString(fd.Recv.List[0].Type) + "." + name
			name = strings.TrimPrefix(name, "*")
		}
		ast.Inspect(fd.Body, func(n ast.Node) bool {
			if fl, ok := n.(*ast.FuncLit); ok && pos >= fl.Pos() && pos <= fl.End() {
				body = fl.Body
			}
			return true
		})
	}
	return
}

// returned reports whether the product is returned by the enclosing function
// declaration (directly as a result expression).
func returnedBy(p *packages.Package, fd *ast.FuncDecl, obj types.Object, name string) bool {
	if fd == nil {
		return false
	}
	ret := false
	ast.Inspect(fd.Body, func(n ast.Node) bool {
		if _, ok := n.(*ast.FuncLit); ok {
			return false
		}
		if r, ok := n.(*ast.ReturnStmt); ok {
			for _, e := range r.Results {
				if types.ExprString(e) == name {
					ret = true
				}
			}
		}
		return true
	})
	return ret
}

// checkMapOrder runs E9 over the given packages (optionally restricted to
// files) and records one obligation per map range.
func (s *moScope) checkMapOrder(pkgRels []string, fileFilter func(string) bool) int {
	c := s.c
	loops := 0
	if s.unordered == nil {
		s.unordered = map[*types.Func]string{}
	}
	type pending struct {
		p    *packages.Package
		file *ast.File
		rs   *ast.RangeStmt
	}
	var all []pending
	for _, rel := range pkgRels {
		p := c.Pkg(rel)
		if p == nil {
			continue
		}
		for _, f := range p.Syntax {
			fname := c.pos(f.Pos())
			if fileFilter != nil && !fileFilter(fname) {
				continue
			}
			ast.Inspect(f, func(n ast.Node) bool {
				rs, ok := n.(*ast.RangeStmt)
				if !ok {
					return true
				}
				t := p.TypesInfo.TypeOf(rs.X)
				if t == nil {
					return true
				}
				if _, isMap := t.Underlying().(*types.Map); isMap {
					all = append(all, pending{p, f, rs})
				}
				return true
			})
		}
	}
	for _, pl := range all {
		loops++
		p, rs := pl.p, pl.rs
		body, fname, fd := enclosingFunc(pl.file, rs.Pos())
		mapT := typeStr(p.TypesInfo.TypeOf(rs.X))
		key := fmt.Sprintf("%s.%s · range %s", relName(p.PkgPath), fname, mapT)
		effs := s.loopEffects(p, rs)
		if len(effs) == 0 {
			c.OK(s.rule, key, rs.Pos(), "body is order-independent (keyed map writes, commutative integer accumulation, constants)")
			continue
		}
		okAll := true
		var why []string
		seen := map[string]bool{}
		for _, e := range effs {
			id := e.kind + "|" + e.name
			if seen[id] {
				continue
			}
			seen[id] = true
			rkey := fmt.Sprintf("%s.%s · %s", relName(p.PkgPath), fname, e.typ)
			switch e.kind {
			case "product", "goroutine-product":
				sorted, _, desc := sortedAfter(p, body, e.obj, e.name, rs.End())
				if sorted {
					why = append(why, e.name+" sorted by "+desc+" before any other use")
					continue
				}
				if reason, ok := s.reviewed[rkey]; ok {
					why = append(why, e.name+" reviewed order-insensitive: "+reason)
					continue
				}
				if returnedBy(p, fd, e.obj, e.name) && fd != nil {
					if fo, ok := p.TypesInfo.Defs[fd.Name].(*types.Func); ok {
						s.unordered[fo] = key
						why = append(why, e.name+" returned unsorted: obligation moves to callers of "+fo.Name())
						continue
					}
				}
				okAll = false
				c.Bad(s.rule, key+" · "+e.typ, e.pos, "%s is appended in map-iteration order and its next use (%s) is not a total-order sort; no reviewed order-insensitive consumer", e.name, desc)
			default:
				if reason, ok := s.reviewed[rkey+" · "+e.kind]; ok {
					why = append(why, e.name+" ("+e.kind+") reviewed: "+reason)
					continue
				}
				okAll = false
				c.Bad(s.rule, key+" · "+e.kind+" "+e.typ, e.pos, "%s: %s", e.name, e.detail)
			}
		}
		if okAll {
			c.OK(s.rule, key, rs.Pos(), "%s", strings.Join(why, "; "))
		}
	}
	return loops
}

// checkUnorderedCallers discharges the obligations moved to callers: every
// call of a function that returns a map-ordered slice must sort the result
// before any other use (or be reviewed).
func (s *moScope) checkUnorderedCallers() {
	c := s.c
	if len(s.unordered) == 0 {
		return
	}
	for _, p := range c.AllPkgs {
		if !strings.HasPrefix(p.PkgPath, modPath) {
			continue
		}
		for _, f := range p.Syntax {
			ast.Inspect(f, func(n ast.Node) bool {
				as, ok := n.(*ast.AssignStmt)
				if !ok || len(as.Rhs) != 1 {
					return true
				}
				call, ok := as.Rhs[0].(*ast.CallExpr)
				if !ok {
					return true
				}
				_, o := calleeName(p.TypesInfo, call)
				fo, ok := o.(*types.Func)
				if !ok {
					return true
				}
				if _, isU := s.unordered[fo]; !isU {
					return true
				}
				lhs := as.Lhs[0]
				root := rootObj(p.TypesInfo, lhs)
				body, fname, fd := enclosingFunc(f, as.Pos())
				if body == nil || root == nil {
					return true
				}
				name := types.ExprString(lhs)
				key := fmt.Sprintf("%s.%s · result of %s", relName(p.PkgPath), fname, fo.Name())
				sorted, _, desc := sortedAfter(p, body, root, name, as.End())
				rkey := fmt.Sprintf("%s.%s · %s", relName(p.PkgPath), fname, typeStr(p.TypesInfo.TypeOf(lhs)))
				if sorted {
					c.OK(s.rule, key, as.Pos(), "unordered result sorted by %s before use", desc)
				} else if reason, ok := s.reviewed[rkey]; ok {
					c.OK(s.rule, key, as.Pos(), "reviewed order-insensitive: %s", reason)
				} else if returnedBy(p, fd, root, name) {
					if fo2, ok := p.TypesInfo.Defs[fd.Name].(*types.Func); ok && s.unordered[fo2] == "" {
						s.unordered[fo2] = key
						c.OK(s.rule, key, as.Pos(), "passed on unsorted: obligation moves to callers of %s", fo2.Name())
					}
				} else {
					c.Bad(s.rule, key, as.Pos(), "result of %s is in map-iteration order and its next use (%s) is not a sort", fo.Name(), desc)
				}
				return true
			})
		}
	}
}
