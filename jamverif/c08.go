package main

import (
	"fmt"
	"go/token"
	"go/types"
	"os"
	"sort"
	"strings"

	"golang.org/x/tools/go/ssa"
)

// fieldStoreShapes lists "addr ← value" for every store in f whose target is a
// field with the given name (declared in a struct whose type name has the suffix).
func fieldStoreShapes(f *ssa.Function, structSuffix, field string) []string {
	return fieldStoreShapesO(f, structSuffix, field, shapeOpts)
}

func fieldStoreShapesO(f *ssa.Function, structSuffix, field string, o exprOpts) []string {
	set := map[string]bool{}
	allInstrs(f, func(in ssa.Instruction) {
		st, ok := in.(*ssa.Store)
		if !ok {
			return
		}
		fa, ok := st.Addr.(*ssa.FieldAddr)
		if !ok || fieldName(fa.X.Type(), fa.Field) != field {
			return
		}
		if !hasSuffixType(derefType(fa.X.Type()), structSuffix) {
			return
		}
		set[abbr(exprStr(fa, shapeOpts))+" ← "+abbr(exprStr(st.Val, o))] = true
	})
	var out []string
	for s := range set {
		out = append(out, s)
	}
	sort.Strings(out)
	return out
}

func checkC08(c *Ctx) (string, []string) {
	e := newOmegaEnv(c)
	if len(c.fatal) > 0 {
		return "", nil
	}
	dump := os.Getenv("JAMVERIF_DUMP") != ""
	var scope []*ssa.Function
	scope = append(scope, e.funcs...)
	if f := c.Fn("PVM", "Psi_A"); f != nil {
		scope = append(scope, f)
	}

	// ---- R1 no downward wrap
	c.Rule("C08.no-underflow", "every subtraction whose minuend is a service balance is committed (stored, or handed back by a helper) only on the false edge of a comparison minuend < subtrahend over the same two operands", 1)
	nsub := 0
	// unexported helpers of package PVM that the host calls use are part of the scope
	inScope := map[*ssa.Function]bool{}
	for _, f := range scope {
		inScope[f] = true
	}
	for _, f := range c.SrcFuncs("PVM") {
		if !inScope[f] && !token.IsExported(f.Name()) && f.Signature.Recv() == nil {
			uses := false
			allInstrs(f, func(in ssa.Instruction) {
				if b, ok := in.(*ssa.BinOp); ok && b.Op == token.SUB && isServiceBalance(b.X) {
					uses = true
				}
			})
			if uses {
				scope = append(scope, f)
				inScope[f] = true
			}
		}
	}
	for _, f := range scope {
		allInstrs(f, func(in ssa.Instruction) {
			b, ok := in.(*ssa.BinOp)
			if !ok || b.Op != token.SUB {
				return
			}
			xs := exprStr(b.X, shapeOpts)
			if !strings.HasSuffix(xs, ".ServiceInfo.Balance") && !isServiceBalance(b.X) {
				return
			}
			nsub++
			ys := exprStr(b.Y, shapeOpts)
			pass := condEdges(f, func(v ssa.Value) (bool, bool) {
				cb, ok := v.(*ssa.BinOp)
				if !ok {
					return false, false
				}
				l, r := exprStr(cb.X, shapeOpts), exprStr(cb.Y, shapeOpts)
				switch {
				case cb.Op == token.LSS && l == xs && r == ys: // bal < a  -> pass on false
					return true, false
				case cb.Op == token.GTR && l == ys && r == xs: // a > bal
					return true, false
				case cb.Op == token.GEQ && l == xs && r == ys: // bal >= a -> pass on true
					return true, true
				case cb.Op == token.LEQ && l == ys && r == xs:
					return true, true
				}
				return false, false
			})
			commits := 0
			for _, ref := range *b.Referrers() {
				st, ok := ref.(*ssa.Store)
				if !ok || st.Val != ssa.Value(b) {
					continue
				}
				commits++
				key := fmt.Sprintf("%s · %s - %s → %s", funcKey(f), abbr(xs), abbr(ys), abbr(exprStr(st.Addr, shapeOpts)))
				c.Check(guardedByF(f, st, pass), "C08.no-underflow", key, st.Pos(), "difference committed only after balance >= amount was established",
					"balance - amount is stored without a dominating check that the balance covers the amount (unsigned wrap creates tokens)")
			}
			// a helper may hand the difference back instead of storing it: that return is the commit
			allInstrs(f, func(rin ssa.Instruction) {
				r, ok := rin.(*ssa.Return)
				if !ok {
					return
				}
				for _, rv := range r.Results {
					if rv == ssa.Value(b) {
						commits++
						key := fmt.Sprintf("%s · %s - %s → returned", funcKey(f), abbr(xs), abbr(ys))
						c.Check(guardedByF(f, r, pass), "C08.no-underflow", key, r.Pos(), "difference handed back only after balance >= amount was established",
							"balance - amount is returned without a dominating check that the balance covers the amount (unsigned wrap creates tokens)")
					}
				}
			})
			if commits == 0 {
				c.OK("C08.no-underflow", fmt.Sprintf("%s · %s - %s (not stored)", funcKey(f), abbr(xs), abbr(ys)), in.Pos(), "difference only compared, never stored")
			}
		})
	}
	c.extra["balance_subtractions"] = nsub

	// ---- R2 debit = credit shapes
	c.Rule("C08.debit-credit", "balance stores per function equal the specification: new moves a_t (threshold of the new account) from creator to the new account; transfer moves register 8 into a deferred transfer; eject adds the ejected balance to the caller and deletes the ejected account on the same path; Psi_A credits Σ deferred-transfer balances", 8)
	bal := func(n string) []string {
		f := c.Fn("PVM", n)
		if f == nil {
			return nil
		}
		out := fieldStoreShapes(f, "types.ServiceInfo", "Balance")
		out = append(out, fieldStoreShapes(f, "types.DeferredTransfer", "Balance")...)
		sort.Strings(out)
		return out
	}
	if dump {
		for _, n := range []string{"new", "transfer", "eject", "Psi_A"} {
			for _, s := range bal(n) {
				fmt.Printf("BAL %s | %s\n", n, s)
			}
		}
	}
	X := "cell(p0).Addition.AccumulateArgs.ResultContextX"
	sAcc := "cell(" + X + ".PartialState.ServiceAccounts[" + X + ".ServiceID])"
	at := "internal/service_account.GetServiceAccountDerivatives(*alloc:types.ServiceAccount).Minbalance"
	want := map[string][]string{
		"new": {
			"&alloc:types.ServiceAccount.ServiceInfo.Balance ← " + at,
			"&alloc:types.ServiceAccount.ServiceInfo.Balance ← 0",
			"&" + sAcc + ".ServiceInfo.Balance ← (" + sAcc + ".ServiceInfo.Balance - " + at + ")",
		},
		"transfer": {
			"&alloc:types.DeferredTransfer.Balance ← cell(p0).VM.Registers[8]",
			"&cell(" + X + ".PartialState.ServiceAccounts[" + X + ".ServiceID]#0).ServiceInfo.Balance ← (cell(" + X + ".PartialState.ServiceAccounts[" + X + ".ServiceID]#0).ServiceInfo.Balance - cell(p0).VM.Registers[8])",
		},
		"eject": {
			"&cell(" + X + ".PartialState.ServiceAccounts[" + X + ".ServiceID]#0).ServiceInfo.Balance ← (cell(" + X + ".PartialState.ServiceAccounts[" + X + ".ServiceID]#0).ServiceInfo.Balance + cell(" + X + ".PartialState.ServiceAccounts[u32(cell(p0).VM.Registers[7])]#0).ServiceInfo.Balance)",
		},
		"Psi_A": {
			"&cell(alloc:types.PartialStateSet.ServiceAccounts[*cell(p2)]#0).ServiceInfo.Balance ← (cell(alloc:types.PartialStateSet.ServiceAccounts[*cell(p2)]#0).ServiceInfo.Balance + Σ(0; p4[*].DeferredTransfer.Balance))",
		},
	}
	for _, n := range []string{"new", "transfer", "eject", "Psi_A"} {
		f := c.Fn("PVM", n)
		if f == nil {
			continue
		}
		got := bal(n)
		if !sameStringSet(got, want[n]) {
			// second view: debit helpers seen through ((value, ok) helpers contribute only their successful returns where the value is used behind ok)
			o := shapeOpts
			o.inline = func(g *ssa.Function) bool { return helperInlinableLoops(g) && g != f }
			alt := fieldStoreShapesO(f, "types.ServiceInfo", "Balance", o)
			alt = append(alt, fieldStoreShapesO(f, "types.DeferredTransfer", "Balance", o)...)
			sort.Strings(alt)
			var norm []string
			for _, a := range alt {
				norm = append(norm, strings.ReplaceAll(a, "u64(cell(p0).VM.Registers[8])", "cell(p0).VM.Registers[8]"))
			}
			if os.Getenv("JAMVERIF_EVALDEBUG") != "" {
				fmt.Fprintf(os.Stderr, "C08 alt %s: %v\n", n, norm)
			}
			if sameStringSet(norm, want[n]) {
				got = norm
			} else if sameStringSet(alt, want[n]) {
				got = alt
			}
		}
		c.checkEffects("C08.debit-credit", "PVM."+n, f, got, want[n])
	}
	// eject: the ejected account is deleted on every path from the credit to the return
	if f := c.Fn("PVM", "eject"); f != nil {
		allInstrs(f, func(in ssa.Instruction) {
			st, ok := in.(*ssa.Store)
			if !ok {
				return
			}
			fa, ok := st.Addr.(*ssa.FieldAddr)
			if !ok || fieldName(fa.X.Type(), fa.Field) != "Balance" {
				return
			}
			isDel := func(x ssa.Instruction) bool {
				call, ok := x.(*ssa.Call)
				if !ok {
					return false
				}
				b, ok := call.Call.Value.(*ssa.Builtin)
				return ok && b.Name() == "delete" && strings.HasSuffix(exprStr(call.Call.Args[0], shapeOpts), "ResultContextX.PartialState.ServiceAccounts") &&
					exprStr(call.Call.Args[1], shapeOpts) == "u32(cell(p0).VM.Registers[7])"
			}
			_, skip := findPath(pathQuery{start: in, target: isReturn, blocker: isDel})
			c.Check(!skip, "C08.debit-credit", "PVM.eject · delete ejected", in.Pos(), "ejected account deleted on every path after the credit", "the ejected account can survive after its balance was credited to the caller")
		})
	}

	// ---- R3 who may write balances
	c.Rule("C08.balance-writers", "ServiceInfo.Balance is stored only by new, transfer, eject and Psi_A within package PVM", 4)
	allowed := map[string]bool{"PVM.new": true, "PVM.transfer": true, "PVM.eject": true, "PVM.Psi_A": true}
	for _, f := range c.SrcFuncs("PVM") {
		if ss := fieldStoreShapes(f, "types.ServiceInfo", "Balance"); len(ss) > 0 {
			c.Check(allowed[funcKey(f)], "C08.balance-writers", funcKey(f), f.Pos(), "specified balance writer", "function stores a service balance but is not one of new/transfer/eject/Psi_A: "+strings.Join(ss, " ; "))
		}
	}

	// ---- R4 cached account coherence
	c.Rule("C08.account-writeback", "whenever a host call stores the current service's account into X's service map, the same value is also stored into the cached *GeneralArgs.ServiceAccount on that path (or the path is the explicit 'not the current service' arm); a stale cache lets a later write resurrect old balances", 6)
	e.ruleAccountWriteback("C08.account-writeback")

	return "Token-conservation mechanisms decided on SSA: subtraction from a balance is committed only under a dominating minuend<subtrahend test on the same operands; the balance stores of new/transfer/eject/Psi_A equal the debit=credit table; only those four functions store balances; the cached current-service account is updated together with X's map. Does not decide upward wrap (needs the global supply bound) nor threshold values (C09).",
		[]string{"canonical expression rendering", "GP B.7 table for new/transfer/eject, B.9 for Psi_A"}
}

// ruleAccountWriteback: see C08.account-writeback.
func (e *omegaEnv) ruleAccountWriteback(rule string) {
	c := e.c
	for _, f := range e.funcs {
		allInstrs(f, func(in ssa.Instruction) {
			mu, ok := in.(*ssa.MapUpdate)
			if !ok {
				return
			}
			ms := exprStr(mu.Map, shapeOpts)
			if !strings.HasSuffix(ms, "ResultContextX.PartialState.ServiceAccounts") {
				return
			}
			ks := exprStr(mu.Key, shapeOpts)
			if !strings.HasSuffix(ks, "ResultContextX.ServiceID") {
				return // another service's account
			}
			if ok, _ := e.migrationExempt(in); ok {
				return
			}
			vs := exprStr(mu.Value, shapeOpts)
			isCache := func(x ssa.Instruction) bool {
				if st, ok := x.(*ssa.Store); ok {
					return strings.HasSuffix(exprStr(st.Addr, shapeOpts), "GeneralArgs.ServiceAccount") && exprStr(st.Val, shapeOpts) == vs
				}
				// or a package helper that, on every path to its return, stores one of its parameters into the cached
				// account, called with the same value for that parameter
				call, ok := x.(*ssa.Call)
				if !ok {
					return false
				}
				g := call.Call.StaticCallee()
				if g == nil || len(g.Blocks) == 0 || g.Pkg != f.Pkg {
					return false
				}
				for i, p := range g.Params {
					if i >= len(call.Call.Args) || exprStr(call.Call.Args[i], shapeOpts) != vs {
						continue
					}
					storesParam := func(y ssa.Instruction) bool {
						st, ok := y.(*ssa.Store)
						return ok && strings.HasSuffix(exprStr(st.Addr, shapeOpts), "GeneralArgs.ServiceAccount") && resolveLocal(stripConv(st.Val)) == ssa.Value(p)
					}
					if _, skips := findPath(pathQuery{fn: g, target: isReturn, blocker: storesParam}); !skips {
						return true
					}
				}
				return false
			}
			// the explicit "not the current service" arm
			notCur := func(ed edge) bool {
				ifi, ok := ed.from.Instrs[len(ed.from.Instrs)-1].(*ssa.If)
				if !ok {
					return false
				}
				k, pol := condKey(ifi.Cond)
				if strings.Contains(k, "GeneralArgs.ServiceID") && strings.Contains(k, "ResultContextX.ServiceID") && strings.Contains(k, " == ") {
					// edge on which ids differ
					return (ed.succ == 0) != pol
				}
				return false
			}
			_, after := findPath(pathQuery{start: in, target: isReturn, blocker: isCache, edgeBlock: notCur})
			_, before := findPath(pathQuery{fn: f, target: func(x ssa.Instruction) bool { return x == in }, blocker: isCache})
			key := fmt.Sprintf("%s · ServiceAccounts[current] ← %s", funcKey(f), abbr(vs))
			c.Check(!(after && before), rule, key, in.Pos(), "cached *GeneralArgs.ServiceAccount updated with the same value on this path",
				"X's account for the current service is replaced without updating the cached *GeneralArgs.ServiceAccount (a later write starts from the stale copy)")
		})
	}
}

var _ types.Type

// isServiceBalance: v reads the Balance field of a types.ServiceInfo value.
func isServiceBalance(v ssa.Value) bool {
	switch x := v.(type) {
	case *ssa.UnOp:
		if fa, ok := x.X.(*ssa.FieldAddr); ok && x.Op == token.MUL {
			return fieldName(fa.X.Type(), fa.Field) == "Balance" && strings.HasSuffix(typeStr(derefType(fa.X.Type())), "types.ServiceInfo")
		}
	case *ssa.Field:
		return fieldName(x.X.Type(), x.Field) == "Balance" && strings.HasSuffix(typeStr(x.X.Type()), "types.ServiceInfo")
	}
	return false
}
