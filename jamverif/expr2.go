package main

import (
	"go/token"
	"go/types"

	"golang.org/x/tools/go/ssa"
)

// appendPhi: phi(init, append(phi, elems)) — a list accumulation in a loop
// (possibly with the append on only some iterations: phi(init, phi(append(..), self))).
func appendPhi(p *ssa.Phi) (init, elems ssa.Value, ok bool) {
	var findAppend func(v ssa.Value, d int) ssa.Value
	findAppend = func(v ssa.Value, d int) ssa.Value {
		if d > 3 {
			return nil
		}
		switch x := stripConv(v).(type) {
		case *ssa.Call:
			if b, isB := x.Call.Value.(*ssa.Builtin); isB && b.Name() == "append" && len(x.Call.Args) == 2 {
				if base := stripConv(x.Call.Args[0]); base == ssa.Value(p) || reachesPhi(base, p, 0) {
					return x.Call.Args[1]
				}
			}
		case *ssa.Phi:
			for _, e := range x.Edges {
				if stripConv(e) == ssa.Value(p) {
					continue
				}
				if r := findAppend(e, d+1); r != nil {
					return r
				}
			}
		}
		return nil
	}
	if len(p.Edges) != 2 {
		return nil, nil, false
	}
	for i := 0; i < 2; i++ {
		if el := findAppend(p.Edges[1-i], 0); el != nil {
			if _, isPhi := stripConv(p.Edges[i]).(*ssa.Phi); isPhi && reachesPhi(p.Edges[i], p, 0) {
				continue
			}
			return p.Edges[i], el, true
		}
	}
	return nil, nil, false
}

func reachesPhi(v ssa.Value, p *ssa.Phi, d int) bool {
	if d > 3 {
		return false
	}
	v = stripConv(v)
	if v == ssa.Value(p) {
		return true
	}
	if q, ok := v.(*ssa.Phi); ok {
		for _, e := range q.Edges {
			if reachesPhi(e, p, d+1) {
				return true
			}
		}
	}
	return false
}

// arrayLiteral: a local array alloc whose elements are each stored once at
// constant indices (the backing array of a variadic call or composite
// literal); returns the elements in index order.
func arrayLiteral(a *ssa.Alloc) []ssa.Value {
	at, ok := derefType(a.Type()).Underlying().(*types.Array)
	if !ok || at.Len() > 16 {
		return nil
	}
	out := make([]ssa.Value, at.Len())
	for _, ref := range *a.Referrers() {
		switch x := ref.(type) {
		case *ssa.IndexAddr:
			idx, isC := constInt(x.Index)
			if !isC || idx < 0 || idx >= at.Len() {
				return nil
			}
			for _, r2 := range *x.Referrers() {
				if st, ok := r2.(*ssa.Store); ok && st.Addr == x {
					if out[idx] != nil {
						return nil
					}
					out[idx] = st.Val
				}
			}
		case *ssa.Slice, *ssa.DebugRef:
		case *ssa.UnOp:
			if x.Op != token.MUL {
				return nil
			}
		default:
			return nil
		}
	}
	for _, v := range out {
		if v == nil {
			return nil
		}
	}
	return out
}
