package main

import (
	"go/constant"
	"go/token"
	"go/types"

	"golang.org/x/tools/go/ssa"
)

// appendPhi: phi(init, append(phi, elems)) — a list accumulation in a loop
// (possibly with the append on only some iterations: phi(init, phi(append(..), self))).
func appendPhi(p *ssa.Phi) (init, elems ssa.Value, ok bool) {
	var findAppend func(v ssa.Value, d int) ssa.Value
	findAppend = func(v ssa.Value, d int) ssa.Value {
		if d > 3 {
			return nil
		}
		switch x := stripConv(v).(type) {
		case *ssa.Call:
			if b, isB := x.Call.Value.(*ssa.Builtin); isB && b.Name() == "append" && len(x.Call.Args) == 2 {
				if base := stripConv(x.Call.Args[0]); base == ssa.Value(p) || reachesPhi(base, p, 0) {
					return x.Call.Args[1]
				}
			}
		case *ssa.Phi:
			for _, e := range x.Edges {
				if stripConv(e) == ssa.Value(p) {
					continue
				}
				if r := findAppend(e, d+1); r != nil {
					return r
				}
			}
		}
		return nil
	}
	edges := distinctEdges(p)
	if len(edges) != 2 {
		return nil, nil, false
	}
	for i := 0; i < 2; i++ {
		if el := findAppend(edges[1-i], 0); el != nil {
			if _, isPhi := stripConv(edges[i]).(*ssa.Phi); isPhi && reachesPhi(edges[i], p, 0) {
				continue
			}
			return edges[i], el, true
		}
	}
	return nil, nil, false
}

func reachesPhi(v ssa.Value, p *ssa.Phi, d int) bool {
	if d > 3 {
		return false
	}
	v = stripConv(v)
	if v == ssa.Value(p) {
		return true
	}
	if q, ok := v.(*ssa.Phi); ok {
		for _, e := range q.Edges {
			if reachesPhi(e, p, d+1) {
				return true
			}
		}
	}
	return false
}

// arrayLiteral: a local array alloc whose elements are each stored once at
// constant indices (the backing array of a variadic call or composite
// literal); returns the elements in index order.
func arrayLiteral(a *ssa.Alloc) []ssa.Value {
	at, ok := derefType(a.Type()).Underlying().(*types.Array)
	if !ok || at.Len() > 16 {
		return nil
	}
	out := make([]ssa.Value, at.Len())
	for _, ref := range *a.Referrers() {
		switch x := ref.(type) {
		case *ssa.IndexAddr:
			idx, isC := constInt(x.Index)
			if !isC || idx < 0 || idx >= at.Len() {
				return nil
			}
			for _, r2 := range *x.Referrers() {
				if st, ok := r2.(*ssa.Store); ok && st.Addr == x {
					if out[idx] != nil {
						return nil
					}
					out[idx] = st.Val
				}
			}
		case *ssa.Slice, *ssa.DebugRef:
		case *ssa.UnOp:
			if x.Op != token.MUL {
				return nil
			}
		default:
			return nil
		}
	}
	for _, v := range out {
		if v == nil {
			return nil
		}
	}
	return out
}

var globalLitCache = map[*ssa.Global][]ssa.Value{}

// globalArrayLiteral: a package-level array variable that is a table: each
// element stored once, at a constant index, by the package initialiser, and
// written (or handed out by address) nowhere else in its package; returns the
// elements in index order. Only unexported variables qualify (an exported one
// can be assigned from other packages).
func globalArrayLiteral(g *ssa.Global) []ssa.Value {
	if es, ok := globalLitCache[g]; ok {
		return es
	}
	globalLitCache[g] = nil
	at, ok := derefType(g.Type()).Underlying().(*types.Array)
	if !ok || at.Len() > 16 || g.Pkg == nil || token.IsExported(g.Name()) {
		return nil
	}
	out := make([]ssa.Value, at.Len())
	good := true
	var visit func(f *ssa.Function)
	seen := map[*ssa.Function]bool{}
	visit = func(f *ssa.Function) {
		if f == nil || seen[f] {
			return
		}
		seen[f] = true
		isInit := f.Name() == "init" && f.Parent() == nil
		for _, b := range f.Blocks {
			for _, in := range b.Instrs {
				for _, op := range in.Operands(nil) {
					if *op != ssa.Value(g) {
						continue
					}
					switch x := in.(type) {
					case *ssa.UnOp: // whole-array read
						if x.Op != token.MUL {
							good = false
						}
					case *ssa.IndexAddr:
						idx, isC := constInt(x.Index)
						for _, r := range *x.Referrers() {
							switch y := r.(type) {
							case *ssa.Store:
								if y.Addr != ssa.Value(x) || !isInit || !isC || idx < 0 || idx >= at.Len() || out[idx] != nil {
									good = false
								} else {
									out[idx] = y.Val
								}
							case *ssa.UnOp:
								if y.Op != token.MUL {
									good = false
								}
							case *ssa.DebugRef:
							default:
								good = false // the element's address escapes
							}
						}
					case *ssa.DebugRef:
					default:
						good = false // stored into, sliced, or passed on by address
					}
				}
			}
		}
		for _, a := range f.AnonFuncs {
			visit(a)
		}
	}
	for _, m := range g.Pkg.Members {
		switch x := m.(type) {
		case *ssa.Function:
			visit(x)
		case *ssa.Type:
			for _, t := range []types.Type{x.Type(), types.NewPointer(x.Type())} {
				ms := g.Pkg.Prog.MethodSets.MethodSet(t)
				for i := 0; i < ms.Len(); i++ {
					visit(g.Pkg.Prog.MethodValue(ms.At(i)))
				}
			}
		}
	}
	for i, v := range out {
		if v == nil {
			// elements left at their zero value by the initialiser
			if b, isB := at.Elem().Underlying().(*types.Basic); isB && b.Info()&types.IsInteger != 0 {
				out[i] = ssa.NewConst(constant.MakeInt64(0), at.Elem())
			} else {
				good = false
			}
		}
	}
	if !good {
		return nil
	}
	globalLitCache[g] = out
	return out
}

// distinctEdges: phi operands with duplicates (several back-edges carrying the
// same value) collapsed.
func distinctEdges(p *ssa.Phi) []ssa.Value {
	var out []ssa.Value
	for _, e := range p.Edges {
		if e == ssa.Value(p) {
			continue // self edge (value unchanged on that path)
		}
		dup := false
		for _, o := range out {
			if o == e {
				dup = true
			}
		}
		if !dup {
			out = append(out, e)
		}
	}
	return out
}

// base renders the base of an lvalue path: an address-valued step
// (&x.f, &x[i]) is rendered as the path itself, without the address marker.
func (r *renderer) base(v ssa.Value, d int) string {
	s := r.render(v, d)
	for len(s) > 0 && s[0] == '&' {
		s = s[1:]
	}
	return s
}

// readOnlyAddr: an address derived from a local cell is only loaded from
// (possibly through further field/index steps), never stored through or escaped.
func readOnlyAddr(v ssa.Value, d int) bool {
	if d > 6 {
		return false
	}
	refs := v.Referrers()
	if refs == nil {
		return true
	}
	for _, r := range *refs {
		switch x := r.(type) {
		case *ssa.UnOp:
			if x.Op != token.MUL {
				return false
			}
		case *ssa.DebugRef:
		case *ssa.FieldAddr:
			if !readOnlyAddr(x, d+1) {
				return false
			}
		case *ssa.IndexAddr:
			if x.X != v || !readOnlyAddr(x, d+1) {
				return false
			}
		default:
			return false
		}
	}
	return true
}

// literalStores finds every store / map update in f whose value is a struct
// literal of the named type (type name suffix match) and returns, per field,
// the set of canonical shapes stored.
func literalStores(f *ssa.Function, typeSuffix string) map[string][]string {
	out := literalStoresSubst(f, typeSuffix, nil)
	if len(out) > 0 {
		return out
	}
	// the record is built by a package helper called from f: the helper's literal, in f's terms
	allInstrs(f, func(in ssa.Instruction) {
		call, ok := in.(*ssa.Call)
		if !ok || len(out) > 0 {
			return
		}
		g := call.Call.StaticCallee()
		if g == nil || len(g.Blocks) == 0 || g.Pkg == nil || g.Pkg != f.Pkg || g == f {
			return
		}
		// only helpers that hand the record back
		returnsIt := false
		rs := g.Signature.Results()
		for i := 0; i < rs.Len(); i++ {
			if hasSuffixType(derefType(rs.At(i).Type()), typeSuffix) {
				returnsIt = true
			}
		}
		if !returnsIt {
			return
		}
		subst := map[ssa.Value]string{}
		for k, p := range g.Params {
			if k < len(call.Call.Args) {
				subst[p] = exprStr(call.Call.Args[k], shapeOpts)
			}
		}
		out = literalStoresSubst(g, typeSuffix, subst)
	})
	return out
}

func literalStoresSubst(f *ssa.Function, typeSuffix string, subst map[ssa.Value]string) map[string][]string {
	render := func(v ssa.Value) string {
		if subst == nil {
			return exprStr(v, shapeOpts)
		}
		return exprStrSubst(v, shapeOpts, subst)
	}
	acc := map[string]map[string]bool{}
	add := func(v ssa.Value) {
		a := localCell(v)
		if a == nil {
			return
		}
		if !hasSuffixType(derefType(a.Type()), typeSuffix) {
			return
		}
		for k, fv := range structLiteralFields(v) {
			if acc[k] == nil {
				acc[k] = map[string]bool{}
			}
			acc[k][render(fv)] = true
		}
	}
	allInstrs(f, func(in ssa.Instruction) {
		switch x := in.(type) {
		case *ssa.Return:
			// a literal returned by value
			for _, r := range x.Results {
				add(r)
			}
		case *ssa.Store:
			// a field written directly into an element of a slice (dst[i].F = v) is the same construction as storing a literal
			if fa, ok := x.Addr.(*ssa.FieldAddr); ok {
				if ia, ok := fa.X.(*ssa.IndexAddr); ok && hasSuffixType(derefType(fa.X.Type()), typeSuffix) && (rootedInLocal(ia.X) || holdsFreshMake(ia.X)) {
					k := fieldName(fa.X.Type(), fa.Field)
					if acc[k] == nil {
						acc[k] = map[string]bool{}
					}
					acc[k][render(x.Val)] = true
					return
				}
			}
			if localCell(x.Addr) != nil && x.Addr == ssa.Value(localCell(x.Addr)) {
				return // initialisation of the literal itself
			}
			add(x.Val)
		case *ssa.MapUpdate:
			add(x.Value)
		}
	})
	out := map[string][]string{}
	for k, m := range acc {
		for s := range m {
			out[k] = append(out[k], s)
		}
		sortStrings(out[k])
	}
	return out
}

func hasSuffixType(t types.Type, suffix string) bool {
	s := types.TypeString(t, nil)
	return len(s) >= len(suffix) && s[len(s)-len(suffix):] == suffix
}

func sortStrings(s []string) {
	for i := 1; i < len(s); i++ {
		for j := i; j > 0 && s[j] < s[j-1]; j-- {
			s[j], s[j-1] = s[j-1], s[j]
		}
	}
}

// initStore: the alloc has exactly one whole-value Store (its other uses may
// pass its address on): returns the stored value.
func initStore(a *ssa.Alloc) ssa.Value {
	var val ssa.Value
	n := 0
	for _, ref := range *a.Referrers() {
		if st, ok := ref.(*ssa.Store); ok && st.Addr == ssa.Value(a) {
			n++
			val = st.Val
		}
	}
	if n == 1 {
		return val
	}
	return nil
}

// literalStoreValues: like literalStores, but the SSA value of each field of the (single) literal of that type built in f
// (nil for a field set differently by different literals).
func literalStoreValues(f *ssa.Function, typeSuffix string) map[string]ssa.Value {
	out := map[string]ssa.Value{}
	conflict := map[string]bool{}
	put := func(k string, v ssa.Value) {
		if old, ok := out[k]; ok && old != v {
			conflict[k] = true
		}
		out[k] = v
	}
	add := func(v ssa.Value) {
		a := localCell(v)
		if a == nil || !hasSuffixType(derefType(a.Type()), typeSuffix) {
			return
		}
		for k, fv := range structLiteralFields(v) {
			put(k, fv)
		}
	}
	allInstrs(f, func(in ssa.Instruction) {
		switch x := in.(type) {
		case *ssa.Return:
			for _, r := range x.Results {
				add(r)
			}
		case *ssa.Store:
			if fa, ok := x.Addr.(*ssa.FieldAddr); ok {
				if ia, ok := fa.X.(*ssa.IndexAddr); ok && hasSuffixType(derefType(fa.X.Type()), typeSuffix) && (rootedInLocal(ia.X) || holdsFreshMake(ia.X)) {
					put(fieldName(fa.X.Type(), fa.Field), x.Val)
					return
				}
			}
			if localCell(x.Addr) != nil && x.Addr == ssa.Value(localCell(x.Addr)) {
				return
			}
			add(x.Val)
		case *ssa.MapUpdate:
			add(x.Value)
		}
	})
	for k := range conflict {
		out[k] = nil
	}
	return out
}

// globalBytesLiteral: g is an unexported package-level []byte that only the package initialiser writes, once, with
// []byte("constant") — and nothing takes its address or writes through it by index. Returns the constant.
func globalBytesLiteral(g *ssa.Global) (string, bool) {
	if g.Pkg == nil || token.IsExported(g.Name()) || !isByteSlice(derefType(g.Type())) {
		return "", false
	}
	val, n, good := "", 0, true
	for _, m := range g.Pkg.Members {
		f, ok := m.(*ssa.Function)
		if !ok {
			continue
		}
		for _, fn := range withClosures(f) {
			isInit := fn.Name() == "init" && fn.Parent() == nil
			allInstrs(fn, func(in ssa.Instruction) {
				for _, op := range in.Operands(nil) {
					if op == nil || *op != ssa.Value(g) {
						continue
					}
					switch x := in.(type) {
					case *ssa.UnOp:
						if x.Op != token.MUL {
							good = false
							break
						}
						// a read: the slice must not be written through
						for _, r := range *x.Referrers() {
							switch y := r.(type) {
							case *ssa.IndexAddr:
								for _, r2 := range *y.Referrers() {
									if st, isSt := r2.(*ssa.Store); isSt && st.Addr == ssa.Value(y) {
										good = false
									}
								}
							}
						}
					case *ssa.Store:
						cv, isCv := x.Val.(*ssa.Convert)
						if x.Addr != ssa.Value(g) || !isInit || !isCv {
							good = false
							break
						}
						k, isK := cv.X.(*ssa.Const)
						if !isK || k.Value == nil || k.Value.Kind() != constant.String {
							good = false
							break
						}
						val = constant.StringVal(k.Value)
						n++
					case *ssa.DebugRef:
					default:
						good = false
					}
				}
			})
		}
	}
	// methods of the package's types may also touch it
	return val, good && n == 1
}
