package main

import (
	"fmt"
	"go/ast"
	"go/token"
	"go/types"
	"strings"

	"golang.org/x/tools/go/packages"

	"golang.org/x/tools/go/ssa"
)

const safPkg = "internal/safrole"

// adjacentArgs: for a call f(a, b) whose arguments are ID slices of two
// elements of the same list, report whether a is element i−1 and b element i.
func adjacentArgs(call *ssa.Call) (prevThenCur bool, ok bool) {
	if len(call.Call.Args) != 2 {
		return false, false
	}
	idxOf := func(v ssa.Value) ssa.Value {
		for i := 0; i < 8; i++ {
			switch x := v.(type) {
			case *ssa.Slice:
				v = x.X
			case *ssa.FieldAddr:
				v = x.X
			case *ssa.IndexAddr:
				return x.Index
			case *ssa.UnOp:
				v = x.X
			default:
				return nil
			}
		}
		return nil
	}
	a, b := idxOf(call.Call.Args[0]), idxOf(call.Call.Args[1])
	if a == nil || b == nil {
		return false, false
	}
	minus1 := func(x, base ssa.Value) bool {
		bo, ok := stripConv(x).(*ssa.BinOp)
		if !ok || bo.Op != token.SUB || stripConv(bo.X) != stripConv(base) {
			return false
		}
		k, ok := constInt(bo.Y)
		return ok && k == 1
	}
	if minus1(a, b) {
		return true, true
	}
	if minus1(b, a) {
		return false, true
	}
	return false, false
}

func checkC23(c *Ctx) (string, []string) {
	S := "internal/safrole."
	get := func(n string) *ssa.Function { return c.Fn(safPkg, n) }
	create, tail, order, dup, att, prev, oi, usk, outer := get("CreateNewTicketAccumulator"), get("VerifyEpochTail"), get("VerifyTicketsOrder"), get("VerifyTicketsDuplicate"), get("VerifyTicketsAttempt"), get("GetPreviousTicketsAccumulator"), get("OutsideInSequencer"), get("UpdateSlotKeySequence"), get("OuterUsedSafrole")
	if len(c.fatal) > 0 {
		return "", nil
	}
	ext := "BLOCK.Extrinsic.Tickets"
	nt := S + "VerifyTicketsProof(p0, " + ext + ")#0"
	acc := "*alloc:types.TicketsAccumulator"

	c.Rule("C23.pipeline", "γ_a' is stored only after, in this order, the submission-window check, the attempt check and the proof check of the block's tickets, the order and duplicate checks of the new ticket identifiers, a sort by identifier of (new ⌢ carried-over) tickets, a duplicate check of the merged list and truncation to one epoch; each check's error is returned as is", 10)
	type step struct{ name, arg string }
	steps := []step{{"VerifyEpochTail", ext}, {"VerifyTicketsAttempt", ext}, {"VerifyTicketsProof", "p0 ‖ " + ext}, {"VerifyTicketsOrder", nt}, {"VerifyTicketsDuplicate", nt}, {"VerifyTicketsDuplicate", acc}}
	var setCall ssa.Instruction
	allInstrs(create, func(in ssa.Instruction) {
		if ci, ok := in.(ssa.CallInstruction); ok && ci.Common().IsInvoke() == false {
			if sc := calleeFunc(ci); sc != nil && sc.Name() == "SetGammaA" {
				setCall = in
			}
		}
	})
	if setCall == nil {
		c.Bad("C23.pipeline", S+"CreateNewTicketAccumulator · SetGammaA", create.Pos(), "the accumulator is never stored")
	} else {
		var prevCall ssa.Instruction
		for i, st := range steps {
			var call *ssa.Call
			allInstrs(create, func(in ssa.Instruction) {
				cl, ok := in.(*ssa.Call)
				if !ok || calleeFunc(cl) == nil || calleeFunc(cl).Name() != st.name {
					return
				}
				var as []string
				for _, a := range cl.Call.Args {
					as = append(as, abbr(exprStr(a, shapeOpts)))
				}
				if strings.Join(as, " ‖ ") == st.arg {
					call = cl
				}
			})
			key := fmt.Sprintf("%sCreateNewTicketAccumulator · step %d %s(%s)", S, i+1, st.name, st.arg)
			if call == nil {
				c.Bad("C23.pipeline", key, create.Pos(), "the check is not performed on this argument")
				continue
			}
			// passing edge: result == nil
			var res ssa.Value = call
			if st.name == "VerifyTicketsProof" {
				for _, r := range *call.Referrers() {
					if ex, ok := r.(*ssa.Extract); ok && ex.Index == 1 {
						res = ex
					}
				}
			}
			pass := condEdges(create, func(v ssa.Value) (bool, bool) {
				bo, ok := v.(*ssa.BinOp)
				if !ok || (bo.Op != token.NEQ && bo.Op != token.EQL) || bo.X != res {
					return false, false
				}
				return true, bo.Op == token.EQL
			})
			okGuard := len(pass) == 1 && guardedBy(create, setCall, pass)
			// error returned unchanged on the failing edge
			okRet := false
			allInstrs(create, func(in ssa.Instruction) {
				if r, ok := in.(*ssa.Return); ok && len(r.Results) == 1 && r.Results[0] == res {
					okRet = true
				}
			})
			okOrder := true
			if prevCall != nil {
				// the previous check dominates this one
				okOrder = prevCall.Block().Dominates(call.Block())
			}
			c.Check(okGuard && okRet && okOrder, "C23.pipeline", key, call.Pos(), "γ_a' stored only on its passing edge; failure returned unchanged; after the previous step", fmt.Sprintf("guards store=%v, failure returned=%v, after previous step=%v", okGuard, okRet, okOrder))
			prevCall = call
		}
		// merged list, sort and truncation
		var mergeOK, sortOK bool
		allInstrs(create, func(in ssa.Instruction) {
			if st, ok := in.(*ssa.Store); ok && abbr(exprStr(st.Addr, shapeOpts)) == "alloc:types.TicketsAccumulator" {
				if abbr(exprStr(st.Val, shapeOpts)) == "append("+nt+", "+S+"GetPreviousTicketsAccumulator())" {
					mergeOK = true
				}
			}
		})
		c.Check(mergeOK, "C23.pipeline", S+"CreateNewTicketAccumulator · merge", create.Pos(), "merged list = new tickets ⌢ carried-over accumulator", "the merged list is not (new tickets ⌢ GetPreviousTicketsAccumulator())")
		if fd, p := c.FuncDecl(safPkg, "CreateNewTicketAccumulator"); fd != nil {
			sortOK = sortsByIDBefore(p, fd)
		}
		// the sort call lies between the merge and the second duplicate check
		var sortCall, dup2 ssa.Instruction
		allInstrs(create, func(in ssa.Instruction) {
			if cl, ok := in.(*ssa.Call); ok && calleeFunc(cl) != nil {
				if calleeFunc(cl).String() == "sort.Slice" {
					sortCall = in
				}
				if calleeFunc(cl).Name() == "VerifyTicketsDuplicate" && abbr(exprStr(cl.Call.Args[0], shapeOpts)) == acc {
					dup2 = in
				}
			}
		})
		between := sortCall != nil && dup2 != nil && sortCall.Block().Dominates(dup2.Block())
		c.Check(sortOK && between, "C23.pipeline", S+"CreateNewTicketAccumulator · sort", create.Pos(), "merged list sorted by ticket identifier bytes before the merged duplicate check", "the merged list is not sorted by bytes.Compare(ID) < 0 before it is checked and stored")
		over := condEdges(create, func(v ssa.Value) (bool, bool) {
			return abbr(exprStr(v, shapeOpts)) == "(types.EpochLength < len("+acc+"))", true
		})
		truncOK := false
		allInstrs(create, func(in ssa.Instruction) {
			if st, ok := in.(*ssa.Store); ok && abbr(exprStr(st.Addr, shapeOpts)) == "alloc:types.TicketsAccumulator" {
				if abbr(exprStr(st.Val, shapeOpts)) == acc+"[:types.EpochLength]" && guardedBy(create, st, over) {
					truncOK = true
				}
			}
		})
		// every path from the merged duplicate check to the store passes the length test
		if truncOK && dup2 != nil {
			_, skip := findPath(pathQuery{start: dup2, target: func(in ssa.Instruction) bool { return in == setCall },
				blocker: func(in ssa.Instruction) bool { return in == over[0].from.Instrs[len(over[0].from.Instrs)-1] }})
			truncOK = !skip
		}
		c.Check(truncOK, "C23.pipeline", S+"CreateNewTicketAccumulator · truncation", create.Pos(), "longer than one epoch ⇒ cut to the first E (lowest) identifiers, on every path to the store", "the merged accumulator can be stored with more than E entries or is not cut to its lowest E identifiers")
		c.requireCall("C23.pipeline", S+"CreateNewTicketAccumulator", create, "SetGammaA", []string{"POST ‖ " + acc})
	}

	c.Rule("C23.comparisons", "the checks reject exactly: identifier[i−1] > identifier[i] (order), identifier[i−1] = identifier[i] (duplicate), attempt ≥ N (attempt), more than V tickets inside the submission window or any ticket after it (window); the carried-over accumulator is dropped exactly when e' > e", 6)
	chk := func(f *ssa.Function, callee string, wantCond string, needPrevCur bool) {
		var call *ssa.Call
		allInstrs(f, func(in ssa.Instruction) {
			if cl, ok := in.(*ssa.Call); ok && calleeFunc(cl) != nil && calleeFunc(cl).String() == callee {
				call = cl
			}
		})
		okAdj := call != nil
		if call != nil {
			pc, ok := adjacentArgs(call)
			okAdj = ok && (pc || !needPrevCur)
		}
		conds := abbrAll(condShapes(f))
		has := false
		for _, s := range conds {
			if s == wantCond {
				has = true
			}
		}
		// the error return is on the passing edge of the condition
		e := condEdges(f, func(v ssa.Value) (bool, bool) { return abbr(exprStr(v, shapeOpts)) == wantCond, true })
		okErr := len(e) == 1
		allInstrs(f, func(in ssa.Instruction) {
			if r, ok := in.(*ssa.Return); ok {
				isErr := abbr(exprStr(r.Results[0], shapeOpts)) != "nil"
				if isErr != guardedBy(f, r, e) {
					okErr = false
				}
			}
		})
		c.Check(okAdj && has && okErr, "C23.comparisons", funcKey(f), f.Pos(), "rejects iff "+wantCond+" on adjacent elements (i−1, i)", fmt.Sprintf("conditions %v; adjacent (i−1,i)=%v; error iff condition=%v", conds, okAdj, okErr))
	}
	chk(order, "bytes.Compare", "(0 < bytes.Compare(&p0[*].ID[:], &p0[*].ID[:]))", true)
	chk(dup, "bytes.Equal", "bytes.Equal(&p0[*].ID[:], &p0[*].ID[:])", false)
	c.checkCondSet("C23.comparisons", S+"VerifyTicketsAttempt", att, []string{"(* < len(p0))", "(u64(types.TicketsPerValidator) <= p0[*].Attempt)"})
	c.checkCondSet("C23.comparisons", S+"VerifyEpochTail", tail, []string{"(0 != len(p0))", "(" + S + "GetSlotIndex(post.GetTau(POST)) < u32(types.SlotSubmissionEnd))", "(types.ValidatorsCount < len(p0))"})
	{
		inWin := condEdges(tail, func(v ssa.Value) (bool, bool) {
			return abbr(exprStr(v, shapeOpts)) == "("+S+"GetSlotIndex(post.GetTau(POST)) < u32(types.SlotSubmissionEnd))", true
		})
		tooMany := condEdges(tail, func(v ssa.Value) (bool, bool) {
			return abbr(exprStr(v, shapeOpts)) == "(types.ValidatorsCount < len(p0))", true
		})
		any := condEdges(tail, func(v ssa.Value) (bool, bool) { return abbr(exprStr(v, shapeOpts)) == "(0 != len(p0))", true })
		ok := len(inWin) == 1 && len(tooMany) == 1 && len(any) == 1 &&
			guardedBy(tail, tooMany[0].from.Instrs[len(tooMany[0].from.Instrs)-1], inWin) &&
			!guardedBy(tail, any[0].from.Instrs[len(any[0].from.Instrs)-1], inWin)
		c.Check(ok, "C23.comparisons", S+"VerifyEpochTail · arms", tail.Pos(), "count limit inside the window, emptiness after it", "the window test does not select between the count limit and the emptiness requirement")
	}
	c.checkCondSet("C23.comparisons", S+"GetPreviousTicketsAccumulator", prev, []string{"(" + S + "GetEpochIndex(prior.GetTau(PRIOR)) < " + S + "GetEpochIndex(post.GetTau(POST)))"})
	{
		newer := condEdges(prev, func(v ssa.Value) (bool, bool) {
			return strings.HasPrefix(abbr(exprStr(v, shapeOpts)), "("+S+"GetEpochIndex(prior.GetTau(PRIOR)) < "), true
		})
		ok := len(newer) == 1
		allInstrs(prev, func(in ssa.Instruction) {
			if r, isR := in.(*ssa.Return); isR {
				s := abbr(exprStr(r.Results[0], shapeOpts))
				if (s == "[][:]") != guardedBy(prev, r, newer) {
					ok = false
				}
			}
		})
		c.Check(ok, "C23.comparisons", S+"GetPreviousTicketsAccumulator · reset arm", prev.Pos(), "empty accumulator iff e' > e, prior γ_a otherwise", "the reset arm is not selected by e' > e")
	}

	c.Rule("C23.sealer-sequence", "γ_s' (6.24): the outside-in ordering of the prior accumulator exactly when e' = e+1 ∧ m ≥ Y ∧ |γ_a| = E; the prior sequence when e' = e; otherwise the fallback F(η'_2, κ'); the outside-in sequencer alternates from the two ends; the caller passes (e, e', m) of the prior and posterior slots", 5)
	c.checkCondSet("C23.sealer-sequence", S+"UpdateSlotKeySequence", usk, []string{"((1 + p0) == p1)", "(types.EpochLength == len(*cell(prior.GetGammaA(PRIOR))))", "(types.SlotSubmissionEnd <= int(p2))", "(p0 == p1)"})
	{
		e1 := condEdges(usk, func(v ssa.Value) (bool, bool) { return abbr(exprStr(v, shapeOpts)) == "((1 + p0) == p1)", true })
		full := condEdges(usk, func(v ssa.Value) (bool, bool) {
			return abbr(exprStr(v, shapeOpts)) == "(types.EpochLength == len(*cell(prior.GetGammaA(PRIOR))))", true
		})
		late := condEdges(usk, func(v ssa.Value) (bool, bool) {
			return abbr(exprStr(v, shapeOpts)) == "(types.SlotSubmissionEnd <= int(p2))", true
		})
		same := condEdges(usk, func(v ssa.Value) (bool, bool) { return abbr(exprStr(v, shapeOpts)) == "(p0 == p1)", true })
		var zCall, fCall, gsCall ssa.Instruction
		allInstrs(usk, func(in ssa.Instruction) {
			if cl, ok := in.(ssa.CallInstruction); ok && calleeFunc(cl) != nil {
				switch calleeFunc(cl).Name() {
				case "OutsideInSequencer":
					zCall = in
				case "FallbackKeySequence":
					fCall = in
				case "GetGammaS":
					gsCall = in
				}
			}
		})
		ok := zCall != nil && fCall != nil && gsCall != nil && len(e1) == 1 && len(full) == 1 && len(late) == 1 && len(same) == 1
		if ok {
			ok = guardedBy(usk, zCall, e1) && guardedBy(usk, zCall, full) && guardedBy(usk, zCall, late) &&
				guardedBy(usk, gsCall, same) && !guardedBy(usk, fCall, same) && !guardedBy(usk, fCall, e1)
			// fallback is the arm where the same-epoch test failed
			notSame := []edge{{same[0].from, 1 - same[0].succ}}
			ok = ok && guardedBy(usk, fCall, notSame)
		}
		c.Check(ok, "C23.sealer-sequence", S+"UpdateSlotKeySequence · arms", usk.Pos(), "Z(γ_a) behind all three conjuncts; γ_s behind e'=e; F otherwise", "the ticket-based sequence is not guarded by e'=e+1 ∧ m≥Y ∧ |γ_a|=E, or the other arms are not selected as in GP 6.24")
		fa := callArgShapes(usk, func(ci ssa.CallInstruction) bool {
			return calleeFunc(ci) != nil && calleeFunc(ci).Name() == "FallbackKeySequence"
		}, 0)
		fb := callArgShapes(usk, func(ci ssa.CallInstruction) bool {
			return calleeFunc(ci) != nil && calleeFunc(ci).Name() == "FallbackKeySequence"
		}, 1)
		za := callArgShapes(usk, func(ci ssa.CallInstruction) bool {
			return calleeFunc(ci) != nil && calleeFunc(ci).Name() == "OutsideInSequencer"
		}, 0)
		c.Check(len(fa) == 1 && abbr(fa[0]) == "cell(post.GetEta(POST))[2]" && len(fb) == 1 && abbr(fb[0]) == "post.GetKappa(POST)" && len(za) == 1 && abbr(za[0]) == "cell(prior.GetGammaA(PRIOR))", "C23.sealer-sequence", S+"UpdateSlotKeySequence · operands", usk.Pos(), "Z(prior γ_a), F(η'_2, κ')", fmt.Sprintf("operands: Z(%v), F(%v, %v)", za, fa, fb))
	}
	c.checkEffects("C23.sealer-sequence", S+"OutsideInSequencer", oi, abbrAll(effectShapesOpt(oi, nil, true)), []string{
		"store &make([]types.TicketBody, types.EpochLength)[*] ← *p0[phi((types.EpochLength - 1) | phi((cyc - 1) | cyc))]",
		"store &make([]types.TicketBody, types.EpochLength)[*] ← *p0[phi(0 | phi((1 + cyc) | cyc))]",
	})
	// caller provenance (the call sits in a closure: resolve captured variables to what the enclosing function stored in them)
	var got []string
	for _, fn := range withClosures(outer) {
		allInstrs(fn, func(in ssa.Instruction) {
			ci, ok := in.(ssa.CallInstruction)
			if !ok || calleeFunc(ci) != usk {
				return
			}
			var as []string
			for _, a := range ci.Common().Args {
				as = append(as, abbr(exprStr(resolveFreeVar(a, fn, outer), shapeOpts)))
			}
			j := strings.Join(as, " ‖ ")
			j = strings.ReplaceAll(j, "(*internal/blockchain.ChainState).GetPriorStates(*cell(internal/blockchain.GetInstance()))", "PRIOR")
			j = strings.ReplaceAll(j, "(*internal/blockchain.ChainState).GetPosteriorStates(*cell(internal/blockchain.GetInstance()))", "POST")
			got = append(got, j)
		})
	}
	c.extra["UpdateSlotKeySequence_args"] = got
	wantArgs := S + "R(prior.GetTau(PRIOR))#0 ‖ " + S + "R(post.GetTau(POST))#0 ‖ " + S + "R(prior.GetTau(PRIOR))#1"
	c.Check(len(got) == 1 && got[0] == wantArgs, "C23.sealer-sequence", S+"OuterUsedSafrole · UpdateSlotKeySequence arguments", outer.Pos(), "called once with (e, e', m) = (epoch of τ, epoch of τ', slot index of τ)", fmt.Sprintf("UpdateSlotKeySequence is called with %v, expected [%s]", got, wantArgs))
	return "Ticket-accumulator mechanisms decided statically: the validation pipeline of CreateNewTicketAccumulator (each check on the right argument, dominating the next, its failure returned unchanged, the store of γ_a' behind every passing edge), merge/sort/duplicate/truncation before the store, the exact comparison each check rejects on (adjacent pairs i−1,i), the e' > e reset, and the three arms of the slot-sealer sequence with their operands and the outside-in alternation.",
		[]string{"canonical renderer; GP 6.24, 6.30-6.34", "not decided: 'lowest identifiers' as a set-level result over runtime lists; VRF outputs (the ring verifier is a stub here)"}
}

// sortsByIDBefore: the function contains sort.Slice(x, func(i,j) bool { return bytes.Compare(x[i].ID[:], x[j].ID[:]) < 0 }).
func sortsByIDBefore(p *packages.Package, fd *ast.FuncDecl) bool {
	found := false
	ast.Inspect(fd.Body, func(n ast.Node) bool {
		call, ok := n.(*ast.CallExpr)
		if !ok {
			return true
		}
		name, _ := calleeName(p.TypesInfo, call)
		if name != "sort.Slice" && name != "sort.SliceStable" || len(call.Args) != 2 {
			return true
		}
		x := types.ExprString(call.Args[0])
		fl, ok := call.Args[1].(*ast.FuncLit)
		if !ok || len(fl.Body.List) != 1 {
			return true
		}
		r, ok := fl.Body.List[0].(*ast.ReturnStmt)
		if !ok || len(r.Results) != 1 {
			return true
		}
		var ps []string
		for _, f := range fl.Type.Params.List {
			for _, nm := range f.Names {
				ps = append(ps, nm.Name)
			}
		}
		if len(ps) != 2 {
			return true
		}
		want := fmt.Sprintf("bytes.Compare(%s[%s].ID[:], %s[%s].ID[:]) < 0", x, ps[0], x, ps[1])
		if types.ExprString(r.Results[0]) == want {
			found = true
		}
		return true
	})
	return found
}

// resolveFreeVar: v is a load of a captured variable inside closure fn (whose
// parent is outer): return the single value outer stored into that variable.
func resolveFreeVar(v ssa.Value, fn, outer *ssa.Function) ssa.Value {
	u, ok := v.(*ssa.UnOp)
	if !ok || u.Op != token.MUL {
		return v
	}
	fv, ok := u.X.(*ssa.FreeVar)
	if !ok {
		return v
	}
	idx := -1
	for i, f := range fn.FreeVars {
		if f == fv {
			idx = i
		}
	}
	if idx < 0 {
		return v
	}
	var out ssa.Value = v
	allInstrs(outer, func(in ssa.Instruction) {
		mc, ok := in.(*ssa.MakeClosure)
		if !ok || mc.Fn != ssa.Value(fn) || idx >= len(mc.Bindings) {
			return
		}
		if a, ok := mc.Bindings[idx].(*ssa.Alloc); ok {
			// exactly one store into the captured variable in the enclosing function
			var vals []ssa.Value
			for _, r := range *a.Referrers() {
				if st, ok := r.(*ssa.Store); ok && st.Addr == ssa.Value(a) {
					vals = append(vals, st.Val)
				}
			}
			if len(vals) == 1 {
				out = vals[0]
			}
		}
	})
	return out
}

// sortsWholeBefore: the function sorts a slice x with
// sort.Slice(x, func(i,j) bool { return bytes.Compare(x[i][:], x[j][:]) < 0 })
// and x is what it subsequently returns or stores.
func sortsWholeBefore(p *packages.Package, fd *ast.FuncDecl) bool {
	found := false
	ast.Inspect(fd.Body, func(n ast.Node) bool {
		call, ok := n.(*ast.CallExpr)
		if !ok {
			return true
		}
		name, _ := calleeName(p.TypesInfo, call)
		if name != "sort.Slice" && name != "sort.SliceStable" || len(call.Args) != 2 {
			return true
		}
		x := types.ExprString(call.Args[0])
		fl, ok := call.Args[1].(*ast.FuncLit)
		if !ok || len(fl.Body.List) != 1 {
			return true
		}
		r, ok := fl.Body.List[0].(*ast.ReturnStmt)
		if !ok || len(r.Results) != 1 {
			return true
		}
		var ps []string
		for _, f := range fl.Type.Params.List {
			for _, nm := range f.Names {
				ps = append(ps, nm.Name)
			}
		}
		if len(ps) != 2 {
			return true
		}
		want := fmt.Sprintf("bytes.Compare(%s[%s][:], %s[%s][:]) < 0", x, ps[0], x, ps[1])
		if types.ExprString(r.Results[0]) == want {
			// x must be used afterwards only as a return value / setter argument: find a later return or call mentioning x
			later := false
			ast.Inspect(fd.Body, func(m ast.Node) bool {
				switch y := m.(type) {
				case *ast.ReturnStmt:
					if y.Pos() > call.End() {
						for _, res := range y.Results {
							if types.ExprString(res) == x {
								later = true
							}
						}
					}
				case *ast.CallExpr:
					if y.Pos() > call.End() {
						for _, a := range y.Args {
							if types.ExprString(a) == x {
								later = true
							}
						}
					}
				}
				return true
			})
			// and no append to x after the sort
			ast.Inspect(fd.Body, func(m ast.Node) bool {
				if as, ok := m.(*ast.AssignStmt); ok && as.Pos() > call.End() {
					for _, l := range as.Lhs {
						if types.ExprString(l) == x {
							later = false
						}
					}
				}
				return true
			})
			found = later
		}
		return true
	})
	return found
}
