package main

import (
	"fmt"
	"go/ast"
	"go/token"
	"go/types"
	"strings"

	"golang.org/x/tools/go/packages"

	"golang.org/x/tools/go/ssa"
)

const safPkg = "internal/safrole"

// adjacentArgs: for a call f(a, b) whose arguments are ID slices of two
// elements of the same list, report whether a is element i−1 and b element i.
func adjacentArgs(call *ssa.Call) (prevThenCur bool, ok bool) {
	if len(call.Call.Args) != 2 {
		return false, false
	}
	idxOf := func(v ssa.Value) ssa.Value {
		for i := 0; i < 8; i++ {
			switch x := v.(type) {
			case *ssa.Slice:
				v = x.X
			case *ssa.FieldAddr:
				v = x.X
			case *ssa.IndexAddr:
				return x.Index
			case *ssa.UnOp:
				v = x.X
			default:
				return nil
			}
		}
		return nil
	}
	a, b := idxOf(call.Call.Args[0]), idxOf(call.Call.Args[1])
	if a == nil || b == nil {
		return false, false
	}
	minus1 := func(x, base ssa.Value) bool {
		bo, ok := stripConv(x).(*ssa.BinOp)
		if !ok || bo.Op != token.SUB || stripConv(bo.X) != stripConv(base) {
			return false
		}
		k, ok := constInt(bo.Y)
		return ok && k == 1
	}
	if minus1(a, b) {
		return true, true
	}
	if minus1(b, a) {
		return false, true
	}
	return false, false
}

func checkC23(c *Ctx) (string, []string) {
	S := "internal/safrole."
	get := func(n string) *ssa.Function { return c.Fn(safPkg, n) }
	create, tail, order, dup, att, prev, oi, usk, outer := get("CreateNewTicketAccumulator"), get("VerifyEpochTail"), get("VerifyTicketsOrder"), get("VerifyTicketsDuplicate"), get("VerifyTicketsAttempt"), get("GetPreviousTicketsAccumulator"), get("OutsideInSequencer"), get("UpdateSlotKeySequence"), get("OuterUsedSafrole")
	if len(c.fatal) > 0 {
		return "", nil
	}
	ext := "BLOCK.Extrinsic.Tickets"
	nt := S + "VerifyTicketsProof(p0, " + ext + ")#0"
	acc := "*alloc:types.TicketsAccumulator"

	c.Rule("C23.pipeline", "γ_a' is stored only after, in this order, the submission-window check, the attempt check and the proof check of the block's tickets, the order and duplicate checks of the new ticket identifiers, a sort by identifier of (new ⌢ carried-over) tickets, a duplicate check of the merged list and truncation to one epoch; each check's error is returned as is", 10)
	type step struct{ name, arg string }
	steps := []step{{"VerifyEpochTail", ext}, {"VerifyTicketsAttempt", ext}, {"VerifyTicketsProof", "p0 ‖ " + ext}, {"VerifyTicketsOrder", nt}, {"VerifyTicketsDuplicate", nt}, {"VerifyTicketsDuplicate", "MERGED"}}
	// the merged list and everything that denotes it later (reloads of the local it is kept in, reslices, phis)
	var mergeV ssa.Value
	allInstrs(create, func(in ssa.Instruction) {
		if call, ok := in.(*ssa.Call); ok {
			if b, ok := call.Call.Value.(*ssa.Builtin); ok && b.Name() == "append" && len(call.Call.Args) == 2 {
				// the value whose parts are exactly (new tickets, carried-over accumulator), however the buffer was sized
				var ps []string
				for _, p := range catValues(call) {
					ps = append(ps, abbr(exprStr(p, shapeOpts)))
				}
				if strings.Join(ps, " ⌢ ") == nt+" ⌢ "+S+"GetPreviousTicketsAccumulator()" {
					mergeV = call
				}
			}
		}
	})
	lineage := map[ssa.Value]bool{}
	if mergeV != nil {
		lineage[mergeV] = true
		for changed := true; changed; {
			changed = false
			mark := func(v ssa.Value) {
				if !lineage[v] {
					lineage[v] = true
					changed = true
				}
			}
			allInstrs(create, func(in ssa.Instruction) {
				switch x := in.(type) {
				case *ssa.UnOp:
					if a, ok := x.X.(*ssa.Alloc); ok && x.Op == token.MUL {
						for _, r := range *a.Referrers() {
							if st, ok := r.(*ssa.Store); ok && st.Addr == ssa.Value(a) && lineage[st.Val] {
								mark(x)
							}
						}
					}
				case *ssa.Slice:
					if lineage[x.X] {
						mark(x)
					}
				case *ssa.Phi:
					for _, e := range x.Edges {
						if lineage[e] {
							mark(x)
						}
					}
				case *ssa.MakeInterface:
					if lineage[x.X] {
						mark(x)
					}
				case *ssa.ChangeType:
					if lineage[x.X] {
						mark(x)
					}
				}
			})
		}
	}
	_ = acc
	var setCall ssa.Instruction
	allInstrs(create, func(in ssa.Instruction) {
		if ci, ok := in.(ssa.CallInstruction); ok && ci.Common().IsInvoke() == false {
			if sc := calleeFunc(ci); sc != nil && sc.Name() == "SetGammaA" {
				setCall = in
			}
		}
	})
	if setCall == nil {
		c.Bad("C23.pipeline", S+"CreateNewTicketAccumulator · SetGammaA", create.Pos(), "the accumulator is never stored")
	} else {
		var prevCall ssa.Instruction
		for i, st := range steps {
			var call *ssa.Call
			allInstrs(create, func(in ssa.Instruction) {
				cl, ok := in.(*ssa.Call)
				if !ok || calleeFunc(cl) == nil || calleeFunc(cl).Name() != st.name {
					return
				}
				var as []string
				for _, a := range cl.Call.Args {
					if lineage[a] {
						as = append(as, "MERGED")
					} else {
						as = append(as, abbr(exprStr(a, shapeOpts)))
					}
				}
				if strings.Join(as, " ‖ ") == st.arg {
					call = cl
				}
			})
			key := fmt.Sprintf("%sCreateNewTicketAccumulator · step %d %s(%s)", S, i+1, st.name, st.arg)
			if call == nil {
				c.Bad("C23.pipeline", key, create.Pos(), "the check is not performed on this argument")
				continue
			}
			// passing edge: result == nil
			var res ssa.Value = call
			if st.name == "VerifyTicketsProof" {
				for _, r := range *call.Referrers() {
					if ex, ok := r.(*ssa.Extract); ok && ex.Index == 1 {
						res = ex
					}
				}
			}
			pass := condEdges(create, func(v ssa.Value) (bool, bool) {
				bo, ok := v.(*ssa.BinOp)
				if !ok || (bo.Op != token.NEQ && bo.Op != token.EQL) || bo.X != res {
					return false, false
				}
				return true, bo.Op == token.EQL
			})
			okGuard := len(pass) == 1 && guardedBy(create, setCall, pass)
			// error returned unchanged on the failing edge
			okRet := false
			allInstrs(create, func(in ssa.Instruction) {
				if r, ok := in.(*ssa.Return); ok && len(r.Results) == 1 && r.Results[0] == res {
					okRet = true
				}
			})
			okOrder := true
			if prevCall != nil {
				// the previous check dominates this one
				okOrder = prevCall.Block().Dominates(call.Block())
			}
			c.Check(okGuard && okRet && okOrder, "C23.pipeline", key, call.Pos(), "γ_a' stored only on its passing edge; failure returned unchanged; after the previous step", fmt.Sprintf("guards store=%v, failure returned=%v, after previous step=%v", okGuard, okRet, okOrder))
			prevCall = call
		}
		// merged list, sort and truncation
		c.Check(mergeV != nil, "C23.pipeline", S+"CreateNewTicketAccumulator · merge", create.Pos(), "merged list = new tickets ⌢ carried-over accumulator", "the merged list is not (new tickets ⌢ GetPreviousTicketsAccumulator())")
		var sortCall, dup2 *ssa.Call
		allInstrs(create, func(in ssa.Instruction) {
			cl, ok := in.(*ssa.Call)
			if !ok || calleeFunc(cl) == nil || len(cl.Call.Args) == 0 {
				return
			}
			if fld, ok := byteOrderSort(cl); ok && fld == "ID" && lineage[cl.Call.Args[0]] {
				sortCall = cl
			}
			if calleeFunc(cl).Name() == "VerifyTicketsDuplicate" && lineage[cl.Call.Args[0]] {
				dup2 = cl
			}
		})
		between := sortCall != nil && dup2 != nil && sortCall.Block().Dominates(dup2.Block())
		c.Check(between, "C23.pipeline", S+"CreateNewTicketAccumulator · sort", create.Pos(), "merged list sorted by ticket identifier bytes before the merged duplicate check", "the merged list is not sorted ascending by the bytes of ID before it is checked and stored")
		// truncation: the stored list is the merged one, cut to its first E entries whenever it is longer
		var cut *ssa.Slice
		allInstrs(create, func(in ssa.Instruction) {
			if sl, ok := in.(*ssa.Slice); ok && lineage[sl.X] && sl.Low == nil && sl.High != nil {
				cut = sl
			}
		})
		stored := false
		if ci, ok := setCall.(ssa.CallInstruction); ok {
			args := ci.Common().Args
			stored = len(args) > 0 && lineage[args[len(args)-1]]
		}
		bad := ""
		if cut == nil || !stored {
			bad = fmt.Sprintf("no cut of the merged list reaches the store (cut found=%v, stored value is the merged list=%v)", cut != nil, stored)
		} else {
			const E = 12
			lenAtom := "len(" + abbr(exprStr(cut.X, robustOpts)) + ")"
			for _, n := range []int64{E - 1, E, E + 1, E + 5} {
				av := func(s string) (int64, bool) {
					switch {
					case s == lenAtom || (strings.HasPrefix(s, "len(") && lineageRender(s)):
						return n, true
					case s == "types.EpochLength":
						return E, true
					}
					return 0, false
				}
				if n > E && reachAvoiding(setCall, cut, robustOpts, av) {
					bad = fmt.Sprintf("with %d merged tickets (E=%d) the accumulator can be stored without being cut", n, E)
					break
				}
				env := intEnv{params: map[ssa.Value]int64{}, lens: map[ssa.Value]int64{cut.X: n}, unknown: map[ssa.Value]bool{}, cells: map[ssa.Value]int64{}, globals: map[string]int64{"EpochLength": E}}
				env.opaque = func(v ssa.Value) (int64, bool) {
					if isIntegerT(v.Type()) {
						if _, isC := v.(*ssa.Const); !isC {
							return av(abbr(exprStr(v, robustOpts)))
						}
					}
					return 0, false
				}
				h, ok := evalInt(cut.High, env, 0)
				some, _ := reachFromEntry(cut, robustOpts, av)
				if some && (!ok || h != min(n, E)) {
					bad = fmt.Sprintf("with %d merged tickets (E=%d) the list is cut to %d entries (evaluable=%v); GP 6.34 keeps the lowest min(n, E) = %d", n, E, h, ok, min(n, int64(E)))
					break
				}
			}
		}
		c.Check(bad == "", "C23.pipeline", S+"CreateNewTicketAccumulator · truncation", create.Pos(), "longer than one epoch ⇒ cut to the first E (lowest) identifiers, on every path to the store", "the merged accumulator can be stored with more than E entries or is not cut to its lowest E identifiers: "+bad)
		c.Check(mustCallOnEveryPath(create, "SetGammaA"), "C23.pipeline", S+"CreateNewTicketAccumulator · SetGammaA on every path", create.Pos(), "no non-error return is reachable without the store", "a path returns without calling SetGammaA: the component keeps a stale value")
	}

	c.Rule("C23.comparisons", "the checks reject exactly: identifier[i−1] > identifier[i] (order), identifier[i−1] = identifier[i] (duplicate), attempt ≥ N (attempt), more than V tickets inside the submission window or any ticket after it (window); the carried-over accumulator is dropped exactly when e' > e", 6)
	c23Adjacent(c, order, "order", func(cmp int64) bool { return cmp > 0 })
	c23Adjacent(c, dup, "duplicate", func(cmp int64) bool { return cmp == 0 })
	c.requireAtoms("C23.comparisons", S+"VerifyTicketsAttempt", att, robustOpts, []string{"(p0[*].Attempt < u64(types.TicketsPerValidator))"})
	{
		const Y, V = 10, 6
		bad := ""
		for _, m := range []int64{Y - 1, Y, Y + 1} {
			for _, n := range []int64{0, 1, V, V + 1} {
				r, ok := runWithAtoms(tail, robustOpts, func(s string) (int64, bool) {
					switch {
					case s == S+"GetSlotIndex(post.GetTau(POST))":
						return m, true
					case s == "len(p0)":
						return n, true
					case s == "types.SlotSubmissionEnd":
						return Y, true
					case s == "types.ValidatorsCount":
						return V, true
					}
					return 0, false
				}, nil)
				if !ok || len(r.Results) != 1 {
					bad = "the window check depends on something other than (slot index, number of tickets, Y, V)"
					break
				}
				isErr := abbr(exprStr(r.Results[0], shapeOpts)) != "nil"
				want := (m < Y && n > V) || (m >= Y && n > 0)
				if isErr != want {
					bad = fmt.Sprintf("with slot index %d (Y=%d) and %d tickets (V=%d) the extrinsic is rejected=%v; GP 6.30 rejects=%v", m, Y, n, V, isErr, want)
					break
				}
			}
			if bad != "" {
				break
			}
		}
		c.Check(bad == "", "C23.comparisons", S+"VerifyEpochTail · arms", tail.Pos(), "count limit V inside the submission window, emptiness after it (12/12 rows)", "the window test does not select between the count limit and the emptiness requirement: "+bad)
	}
	c.checkCondSet("C23.comparisons", S+"GetPreviousTicketsAccumulator", prev, []string{"(" + S + "GetEpochIndex(prior.GetTau(PRIOR)) < " + S + "GetEpochIndex(post.GetTau(POST)))"})
	{
		newer := condEdges(prev, func(v ssa.Value) (bool, bool) {
			return strings.HasPrefix(abbr(exprStr(v, shapeOpts)), "("+S+"GetEpochIndex(prior.GetTau(PRIOR)) < "), true
		})
		ok := len(newer) == 1
		allInstrs(prev, func(in ssa.Instruction) {
			if r, isR := in.(*ssa.Return); isR {
				s := abbr(exprStr(r.Results[0], shapeOpts))
				if (s == "[][:]") != guardedBy(prev, r, newer) {
					ok = false
				}
			}
		})
		c.Check(ok, "C23.comparisons", S+"GetPreviousTicketsAccumulator · reset arm", prev.Pos(), "empty accumulator iff e' > e, prior γ_a otherwise", "the reset arm is not selected by e' > e")
	}

	c.Rule("C23.sealer-sequence", "γ_s' (6.24): the outside-in ordering of the prior accumulator exactly when e' = e+1 ∧ m ≥ Y ∧ |γ_a| = E; the prior sequence when e' = e; otherwise the fallback F(η'_2, κ'); the outside-in sequencer alternates from the two ends; the caller passes (e, e', m) of the prior and posterior slots", 4)
	{
		const E, Y = 12, 10
		bad := ""
		rows := 0
		for _, ee := range [][2]int64{{5, 5}, {5, 6}, {5, 7}, {5, 4}} {
			for _, ga := range []int64{E - 1, E} {
				for _, m := range []int64{Y - 1, Y} {
					var ran []string
					_, ok := runWithAtoms(usk, robustOpts, func(s string) (int64, bool) {
						switch {
						case s == "p0":
							return ee[0], true
						case s == "p1":
							return ee[1], true
						case s == "p2":
							return m, true
						case strings.HasPrefix(s, "len(") && strings.Contains(s, "GetGammaA("):
							return ga, true
						case s == "types.EpochLength":
							return E, true
						case s == "types.SlotSubmissionEnd":
							return Y, true
						}
						return 0, false
					}, func(in ssa.Instruction) {
						if ci, ok := in.(ssa.CallInstruction); ok && calleeFunc(ci) != nil {
							switch n := calleeFunc(ci).Name(); n {
							case "OutsideInSequencer", "FallbackKeySequence", "GetGammaS":
								ran = append(ran, n)
							}
						}
					})
					rows++
					if !ok {
						bad = "the choice of γ_s' depends on something other than (e, e', m, |γ_a|, E, Y)"
						break
					}
					want := "FallbackKeySequence"
					switch {
					case ee[1] == ee[0]+1 && m >= Y && ga == E:
						want = "OutsideInSequencer"
					case ee[1] == ee[0]:
						want = "GetGammaS"
					}
					if len(ran) != 1 || ran[0] != want {
						bad = fmt.Sprintf("with e=%d, e'=%d, m=%d (Y=%d), |γ_a|=%d (E=%d) the sequence comes from %v; GP 6.24 takes %s", ee[0], ee[1], m, Y, ga, E, ran, want)
						break
					}
				}
				if bad != "" {
					break
				}
			}
			if bad != "" {
				break
			}
		}
		c.Check(bad == "", "C23.sealer-sequence", S+"UpdateSlotKeySequence · arms", usk.Pos(), fmt.Sprintf("Z(γ_a) exactly when e'=e+1 ∧ m≥Y ∧ |γ_a|=E; γ_s when e'=e; F otherwise (%d rows)", rows), "the ticket-based sequence is not guarded by e'=e+1 ∧ m≥Y ∧ |γ_a|=E, or the other arms are not selected as in GP 6.24: "+bad)
		fa := callArgShapes(usk, func(ci ssa.CallInstruction) bool {
			return calleeFunc(ci) != nil && calleeFunc(ci).Name() == "FallbackKeySequence"
		}, 0)
		fb := callArgShapes(usk, func(ci ssa.CallInstruction) bool {
			return calleeFunc(ci) != nil && calleeFunc(ci).Name() == "FallbackKeySequence"
		}, 1)
		za := callArgShapes(usk, func(ci ssa.CallInstruction) bool {
			return calleeFunc(ci) != nil && calleeFunc(ci).Name() == "OutsideInSequencer"
		}, 0)
		c.Check(len(fa) == 1 && abbr(fa[0]) == "cell(post.GetEta(POST))[2]" && len(fb) == 1 && abbr(fb[0]) == "post.GetKappa(POST)" && len(za) == 1 && abbr(za[0]) == "cell(prior.GetGammaA(PRIOR))", "C23.sealer-sequence", S+"UpdateSlotKeySequence · operands", usk.Pos(), "Z(prior γ_a), F(η'_2, κ')", fmt.Sprintf("operands: Z(%v), F(%v, %v)", za, fa, fb))
	}
	{
		const E = 8
		type mv struct{ dst, src int64 }
		var moves []mv
		evalOK := true
		env := intEnv{params: map[ssa.Value]int64{}, lens: map[ssa.Value]int64{}, unknown: map[ssa.Value]bool{}, cells: map[ssa.Value]int64{}, globals: map[string]int64{"EpochLength": E}, closed: true}
		env.watch = func(in ssa.Instruction, e intEnv) {
			switch x := in.(type) {
			case *ssa.MakeSlice:
				if k, ok := evalInt(x.Len, e, 0); ok {
					e.lens[x] = k
				}
			case *ssa.Store:
				ia, ok := x.Addr.(*ssa.IndexAddr)
				if !ok {
					return
				}
				if _, isMk := ia.X.(*ssa.MakeSlice); !isMk {
					return
				}
				ld, ok := x.Val.(*ssa.UnOp)
				if !ok {
					evalOK = false
					return
				}
				sa, ok := ld.X.(*ssa.IndexAddr)
				if !ok {
					evalOK = false
					return
				}
				d, ok1 := evalInt(ia.Index, e, 0)
				s, ok2 := evalInt(sa.Index, e, 0)
				if !ok1 || !ok2 {
					evalOK = false
					return
				}
				moves = append(moves, mv{d, s})
			}
		}
		fuel := 6000
		env.fuel = &fuel
		last := walkBlocks(oi.Blocks[0], nil, env, func(*ssa.BasicBlock) bool { return false })
		bad := ""
		if last == nil || !evalOK {
			bad = "the sequencer is not a pure index permutation of its input (evaluation stops)"
		} else if len(moves) != E {
			bad = fmt.Sprintf("the sequencer fills %d of %d positions", len(moves), E)
		} else {
			for _, m := range moves {
				want := m.dst / 2
				if m.dst%2 == 1 {
					want = E - 1 - m.dst/2
				}
				if m.src != want {
					bad = fmt.Sprintf("position %d takes ticket %d; the outside-in order (GP 6.25) takes ticket %d", m.dst, m.src, want)
					break
				}
			}
		}
		c.Check(bad == "", "C23.sealer-sequence", S+"OutsideInSequencer · order", oi.Pos(), fmt.Sprintf("out[i] = t[i/2] for even i, t[E−1−i/2] for odd i (all %d positions, E=%d)", E, E), bad)
	}
	// caller provenance (the call sits in a closure: resolve captured variables to what the enclosing function stored in them)
	var got []string
	for _, fn := range withClosures(outer) {
		allInstrs(fn, func(in ssa.Instruction) {
			ci, ok := in.(ssa.CallInstruction)
			if !ok || calleeFunc(ci) != usk {
				return
			}
			var as []string
			for _, a := range ci.Common().Args {
				as = append(as, abbr(exprStr(resolveFreeVar(a, fn, outer), shapeOpts)))
			}
			j := strings.Join(as, " ‖ ")
			j = strings.ReplaceAll(j, "(*internal/blockchain.ChainState).GetPriorStates(*cell(internal/blockchain.GetInstance()))", "PRIOR")
			j = strings.ReplaceAll(j, "(*internal/blockchain.ChainState).GetPosteriorStates(*cell(internal/blockchain.GetInstance()))", "POST")
			got = append(got, j)
		})
	}
	c.extra["UpdateSlotKeySequence_args"] = got
	wantArgs := S + "R(prior.GetTau(PRIOR))#0 ‖ " + S + "R(post.GetTau(POST))#0 ‖ " + S + "R(prior.GetTau(PRIOR))#1"
	c.Check(len(got) == 1 && got[0] == wantArgs, "C23.sealer-sequence", S+"OuterUsedSafrole · UpdateSlotKeySequence arguments", outer.Pos(), "called once with (e, e', m) = (epoch of τ, epoch of τ', slot index of τ)", fmt.Sprintf("UpdateSlotKeySequence is called with %v, expected [%s]", got, wantArgs))
	return "Ticket-accumulator mechanisms decided statically: the validation pipeline of CreateNewTicketAccumulator (each check on the right argument, dominating the next, its failure returned unchanged, the store of γ_a' behind every passing edge), merge/sort/duplicate/truncation before the store, the exact comparison each check rejects on (adjacent pairs i−1,i), the e' > e reset, and the three arms of the slot-sealer sequence with their operands and the outside-in alternation.",
		[]string{"canonical renderer; GP 6.24, 6.30-6.34", "not decided: 'lowest identifiers' as a set-level result over runtime lists; VRF outputs (the ring verifier is a stub here)"}
}

// sortsByIDBefore: the function contains sort.Slice(x, func(i,j) bool { return bytes.Compare(x[i].ID[:], x[j].ID[:]) < 0 }).
func sortsByIDBefore(p *packages.Package, fd *ast.FuncDecl) bool {
	found := false
	ast.Inspect(fd.Body, func(n ast.Node) bool {
		call, ok := n.(*ast.CallExpr)
		if !ok {
			return true
		}
		name, _ := calleeName(p.TypesInfo, call)
		if name != "sort.Slice" && name != "sort.SliceStable" || len(call.Args) != 2 {
			return true
		}
		x := types.ExprString(call.Args[0])
		fl, ok := call.Args[1].(*ast.FuncLit)
		if !ok || len(fl.Body.List) != 1 {
			return true
		}
		r, ok := fl.Body.List[0].(*ast.ReturnStmt)
		if !ok || len(r.Results) != 1 {
			return true
		}
		var ps []string
		for _, f := range fl.Type.Params.List {
			for _, nm := range f.Names {
				ps = append(ps, nm.Name)
			}
		}
		if len(ps) != 2 {
			return true
		}
		want := fmt.Sprintf("bytes.Compare(%s[%s].ID[:], %s[%s].ID[:]) < 0", x, ps[0], x, ps[1])
		if types.ExprString(r.Results[0]) == want {
			found = true
		}
		return true
	})
	return found
}

// resolveFreeVar: v is a load of a captured variable inside closure fn (whose
// parent is outer): return the single value outer stored into that variable.
func resolveFreeVar(v ssa.Value, fn, outer *ssa.Function) ssa.Value {
	u, ok := v.(*ssa.UnOp)
	if !ok || u.Op != token.MUL {
		return v
	}
	fv, ok := u.X.(*ssa.FreeVar)
	if !ok {
		return v
	}
	idx := -1
	for i, f := range fn.FreeVars {
		if f == fv {
			idx = i
		}
	}
	if idx < 0 {
		return v
	}
	var out ssa.Value = v
	allInstrs(outer, func(in ssa.Instruction) {
		mc, ok := in.(*ssa.MakeClosure)
		if !ok || mc.Fn != ssa.Value(fn) || idx >= len(mc.Bindings) {
			return
		}
		if a, ok := mc.Bindings[idx].(*ssa.Alloc); ok {
			// exactly one store into the captured variable in the enclosing function
			var vals []ssa.Value
			for _, r := range *a.Referrers() {
				if st, ok := r.(*ssa.Store); ok && st.Addr == ssa.Value(a) {
					vals = append(vals, st.Val)
				}
			}
			if len(vals) == 1 {
				out = vals[0]
			}
		}
	})
	return out
}

// sortsWholeBefore: the function sorts a slice x with
// sort.Slice(x, func(i,j) bool { return bytes.Compare(x[i][:], x[j][:]) < 0 })
// and x is what it subsequently returns or stores.
func sortsWholeBefore(p *packages.Package, fd *ast.FuncDecl) bool {
	found := false
	ast.Inspect(fd.Body, func(n ast.Node) bool {
		call, ok := n.(*ast.CallExpr)
		if !ok {
			return true
		}
		name, _ := calleeName(p.TypesInfo, call)
		if name != "sort.Slice" && name != "sort.SliceStable" || len(call.Args) != 2 {
			return true
		}
		x := types.ExprString(call.Args[0])
		fl, ok := call.Args[1].(*ast.FuncLit)
		if !ok || len(fl.Body.List) != 1 {
			return true
		}
		r, ok := fl.Body.List[0].(*ast.ReturnStmt)
		if !ok || len(r.Results) != 1 {
			return true
		}
		var ps []string
		for _, f := range fl.Type.Params.List {
			for _, nm := range f.Names {
				ps = append(ps, nm.Name)
			}
		}
		if len(ps) != 2 {
			return true
		}
		want := fmt.Sprintf("bytes.Compare(%s[%s][:], %s[%s][:]) < 0", x, ps[0], x, ps[1])
		if types.ExprString(r.Results[0]) == want {
			// x must be used afterwards only as a return value / setter argument: find a later return or call mentioning x
			later := false
			ast.Inspect(fd.Body, func(m ast.Node) bool {
				switch y := m.(type) {
				case *ast.ReturnStmt:
					if y.Pos() > call.End() {
						for _, res := range y.Results {
							if types.ExprString(res) == x {
								later = true
							}
						}
					}
				case *ast.CallExpr:
					if y.Pos() > call.End() {
						for _, a := range y.Args {
							if types.ExprString(a) == x {
								later = true
							}
						}
					}
				}
				return true
			})
			// and no append to x after the sort
			ast.Inspect(fd.Body, func(m ast.Node) bool {
				if as, ok := m.(*ast.AssignStmt); ok && as.Pos() > call.End() {
					for _, l := range as.Lhs {
						if types.ExprString(l) == x {
							later = false
						}
					}
				}
				return true
			})
			found = later
		}
		return true
	})
	return found
}

// lineageRender: the rendering denotes the merged ticket list (new tickets ⌢ carried-over accumulator) or a reload of it.
func lineageRender(s string) bool {
	return strings.Contains(s, "GetPreviousTicketsAccumulator()") || strings.Contains(s, "alloc:types.TicketsAccumulator")
}

// c23Adjacent: VerifyTicketsOrder / VerifyTicketsDuplicate reject exactly on the
// stated outcome of comparing the identifiers of adjacent tickets (i−1, i).
// Two forms: a loop over adjacent pairs (decided as a table over the
// comparison outcome), or slices.IsSortedFunc with a byte comparator on ID (order only).
func c23Adjacent(c *Ctx, f *ssa.Function, what string, rejects func(cmp int64) bool) {
	key := funcKey(f)
	o := robustOpts
	// form B
	var sortedCall *ssa.Call
	allInstrs(f, func(in ssa.Instruction) {
		if call, ok := in.(*ssa.Call); ok && call.Call.StaticCallee() != nil {
			n := call.Call.StaticCallee().String()
			if call.Call.StaticCallee().Origin() != nil {
				n = call.Call.StaticCallee().Origin().String()
			}
			if n == "slices.IsSortedFunc" && len(call.Call.Args) == 2 && call.Call.Args[0] == ssa.Value(f.Params[0]) {
				sortedCall = call
			}
		}
	})
	if sortedCall != nil && what == "order" {
		var cmp *ssa.Function
		switch x := stripConv(sortedCall.Call.Args[1]).(type) {
		case *ssa.MakeClosure:
			cmp, _ = x.Fn.(*ssa.Function)
		case *ssa.Function:
			cmp = x
		}
		okCmp := false
		if cmp != nil {
			rs := abbrMap(returnShapesO(cmp, o))["ret"]
			okCmp = len(rs) == 1 && strings.NewReplacer("&cell(p0)", "p0", "&cell(p1)", "p1", "cell(p0)", "p0", "cell(p1)", "p1").Replace(rs[0]) == "bytes.Compare(p0.ID[:], p1.ID[:])"
		}
		bad := ""
		for v := int64(0); v <= 1; v++ {
			r, ok := runWithAtoms(f, o, func(s string) (int64, bool) {
				if strings.HasPrefix(s, "slices.IsSortedFunc(") {
					return v, true
				}
				return 0, false
			}, nil)
			if !ok || len(r.Results) != 1 {
				bad = "the verdict depends on something other than the sortedness test"
				break
			}
			if isErr := abbr(exprStr(r.Results[0], shapeOpts)) != "nil"; isErr != (v == 0) {
				bad = fmt.Sprintf("sorted=%d gives rejected=%v", v, isErr)
			}
		}
		c.Check(okCmp && bad == "", "C23.comparisons", key, f.Pos(), "rejects exactly when the identifiers are not in non-decreasing byte order (slices.IsSortedFunc with bytes.Compare on ID)", "order check: comparator on ID bytes="+fmt.Sprint(okCmp)+" "+bad)
		return
	}
	// form A: loop over adjacent pairs
	var errRet *ssa.Return
	allInstrs(f, func(in ssa.Instruction) {
		if r, ok := in.(*ssa.Return); ok && len(r.Results) == 1 && abbr(exprStr(r.Results[0], shapeOpts)) != "nil" {
			errRet = r
		}
	})
	// the comparison: bytes.Compare / bytes.Equal (possibly inside a comparator helper) on the ID of two elements
	var cmpCall *ssa.Call
	var cmpSubst map[ssa.Value]string
	visitWithHelpers(f, o, func(g *ssa.Function, subst map[ssa.Value]string, in ssa.Instruction) {
		if call, ok := in.(*ssa.Call); ok && call.Call.StaticCallee() != nil {
			switch call.Call.StaticCallee().String() {
			case "bytes.Compare", "bytes.Equal":
				cmpCall, cmpSubst = call, subst
			}
		}
	})
	if errRet == nil || cmpCall == nil {
		c.Bad("C23.comparisons", key, f.Pos(), "no adjacent-pair comparison of ticket identifiers leading to a rejection was found")
		return
	}
	a0 := abbr(exprStrSubst(cmpCall.Call.Args[0], o, cmpSubst))
	a1 := abbr(exprStrSubst(cmpCall.Call.Args[1], o, cmpSubst))
	okOperands := strings.HasSuffix(a0, ".ID[:]") && strings.HasSuffix(a1, ".ID[:]") && strings.Contains(a0, "p0[") && strings.Contains(a1, "p0[")
	// adjacency (i−1, i): the two element indices differ by one, previous first
	okAdj := false
	allInstrs(f, func(in ssa.Instruction) {
		call, ok := in.(*ssa.Call)
		if !ok {
			return
		}
		var idx []ssa.Value
		var collect func(v ssa.Value, d int)
		collect = func(v ssa.Value, d int) {
			if d > 8 {
				return
			}
			switch x := v.(type) {
			case *ssa.Slice:
				collect(x.X, d+1)
			case *ssa.FieldAddr:
				collect(x.X, d+1)
			case *ssa.UnOp:
				collect(x.X, d+1)
			case *ssa.Field:
				collect(x.X, d+1)
			case *ssa.Alloc:
				if sv := singleStore(x); sv != nil {
					collect(sv, d+1)
				}
			case *ssa.IndexAddr:
				if x.X == ssa.Value(f.Params[0]) {
					idx = append(idx, x.Index)
				}
			}
		}
		for _, a := range call.Call.Args {
			collect(a, 0)
		}
		if len(idx) == 2 {
			if b, ok := stripConv(idx[0]).(*ssa.BinOp); ok && b.Op == token.SUB && stripConv(b.X) == stripConv(idx[1]) {
				if k, ok := constInt(b.Y); ok && k == 1 {
					okAdj = true
				}
			}
			// or written from the earlier element: (i, i+1)
			if b, ok := stripConv(idx[1]).(*ssa.BinOp); ok && b.Op == token.ADD {
				x, y := stripConv(b.X), stripConv(b.Y)
				if k, isK := constInt(x); isK && k == 1 {
					x, y = y, x
				}
				if k, isK := constInt(y); isK && k == 1 && x == stripConv(idx[0]) {
					okAdj = true
				}
			}
		}
	})
	bad := ""
	for _, v := range []int64{-1, 0, 1} {
		reached, ok := iterReaches(errRet, o, nil, func(s string) (int64, bool) {
			switch {
			case strings.HasPrefix(s, "bytes.Compare("):
				return v, true
			case strings.HasPrefix(s, "bytes.Equal("):
				if v == 0 {
					return 1, true
				}
				return 0, true
			}
			return 0, false
		})
		if !ok {
			bad = "the rejection depends on something other than the comparison of the two identifiers"
			break
		}
		if reached != rejects(v) {
			bad = fmt.Sprintf("compare(id[i−1], id[i]) = %d gives rejected=%v", v, reached)
			break
		}
	}
	c.Check(okOperands && okAdj && bad == "", "C23.comparisons", key, f.Pos(), "rejects exactly on the stated outcome of comparing the identifiers of adjacent tickets (i−1, i) (3/3 rows)", fmt.Sprintf("%s check: operands are ticket IDs=%v (%s, %s); adjacent (i−1,i)=%v; %s", what, okOperands, a0, a1, okAdj, bad))
}
