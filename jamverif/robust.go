package main

import (
	"go/constant"
	"go/token"
	"go/types"
	"sort"
	"strings"

	"golang.org/x/tools/go/ssa"
)

// Refactoring-tolerant views of a function. They are used by rules that state
// facts every implementation of a specification clause must exhibit (which
// tests are made, what is hashed in which order, which callee receives which
// operand) instead of comparing a whole function with a frozen shape:
//   - helper calls are seen through (renderer inline option; here: the bodies
//     of inlinable helpers are visited with the call's arguments substituted),
//   - comparisons are polarity-free atoms (a != b ≡ a == b, a >= b ≡ a < b),
//     boolean phis (&&, ||) and negations are decomposed into their atoms.

func exprStrSubst(v ssa.Value, o exprOpts, subst map[ssa.Value]string) string {
	r := &renderer{o: o, onStack: map[ssa.Value]bool{}, subst: subst}
	if r.o.depth == 0 {
		r.o.depth = 14
	}
	r.markRoot(v)
	return r.render(v, 0)
}

// atomStr: canonical polarity-free rendering of a comparison.
func atomsOfCond(v ssa.Value, o exprOpts, subst map[ssa.Value]string, out map[string]bool, seen map[ssa.Value]bool, depth int) {
	if v == nil || seen[v] || depth > 12 {
		return
	}
	seen[v] = true
	switch x := v.(type) {
	case *ssa.Const:
		return
	case *ssa.UnOp:
		if x.Op == token.NOT {
			atomsOfCond(x.X, o, subst, out, seen, depth+1)
			return
		}
	case *ssa.Phi:
		if isBoolT(x.Type()) {
			for _, e := range x.Edges {
				atomsOfCond(e, o, subst, out, seen, depth+1)
			}
			return
		}
	case *ssa.BinOp:
		a, b := exprStrSubst(x.X, o, subst), exprStrSubst(x.Y, o, subst)
		switch x.Op {
		case token.EQL, token.NEQ:
			if a > b {
				a, b = b, a
			}
			out["("+a+" == "+b+")"] = true
			return
		case token.LSS, token.GEQ:
			out["("+a+" < "+b+")"] = true
			return
		case token.GTR, token.LEQ:
			out["("+b+" < "+a+")"] = true
			return
		case token.AND, token.OR, token.XOR:
			if isBoolT(x.Type()) {
				atomsOfCond(x.X, o, subst, out, seen, depth+1)
				atomsOfCond(x.Y, o, subst, out, seen, depth+1)
				return
			}
		}
	case *ssa.Call:
		if f := x.Call.StaticCallee(); f != nil && !x.Call.IsInvoke() && o.inline != nil && o.inline(f) && isBoolT(x.Type()) && len(x.Call.Args) == len(f.Params) {
			ns := map[ssa.Value]string{}
			for k, s := range subst {
				ns[k] = s
			}
			for i, p := range f.Params {
				ns[p] = exprStrSubst(x.Call.Args[i], o, subst)
			}
			if mc, ok := x.Call.Value.(*ssa.MakeClosure); ok {
				for i, fv := range f.FreeVars {
					if i < len(mc.Bindings) {
						ns[fv] = exprStrSubst(mc.Bindings[i], o, subst)
					}
				}
			}
			for _, b := range f.Blocks {
				switch t := b.Instrs[len(b.Instrs)-1].(type) {
				case *ssa.If:
					atomsOfCond(t.Cond, o, ns, out, seen, depth+1)
				case *ssa.Return:
					for _, rv := range t.Results {
						if isBoolT(rv.Type()) {
							atomsOfCond(rv, o, ns, out, seen, depth+1)
						}
					}
				}
			}
			return
		}
	}
	if isBoolT(v.Type()) {
		out[exprStrSubst(v, o, subst)] = true
	}
}

// condAtoms: the polarity-free atomic tests f branches on (helpers seen through).
func condAtoms(f *ssa.Function, o exprOpts) []string {
	out := map[string]bool{}
	seen := map[ssa.Value]bool{}
	visitWithHelpers(f, o, func(g *ssa.Function, subst map[ssa.Value]string, in ssa.Instruction) {
		if i, ok := in.(*ssa.If); ok {
			atomsOfCond(i.Cond, o, subst, out, seen, 0)
		}
	})
	var res []string
	for s := range out {
		for _, e := range expandAlts(s) {
			if e != "true" && e != "false" {
				res = append(res, e)
			}
		}
	}
	return uniqSorted(res)
}

// visitWithHelpers calls fn for every instruction of f and, recursively, of
// every inlinable helper f calls, with the parameter substitution of the call.
func visitWithHelpers(f *ssa.Function, o exprOpts, fn func(g *ssa.Function, subst map[ssa.Value]string, in ssa.Instruction)) {
	active := map[*ssa.Function]bool{}
	var rec func(g *ssa.Function, subst map[ssa.Value]string, depth int)
	rec = func(g *ssa.Function, subst map[ssa.Value]string, depth int) {
		if active[g] || depth > 6 {
			return
		}
		active[g] = true
		defer delete(active, g)
		for _, b := range g.Blocks {
			for _, in := range b.Instrs {
				fn(g, subst, in)
				ci, ok := in.(ssa.CallInstruction)
				if !ok || o.inline == nil || ci.Common().IsInvoke() {
					continue
				}
				h := ci.Common().StaticCallee()
				if h == nil || !o.inline(h) || len(ci.Common().Args) != len(h.Params) {
					continue
				}
				ns := map[ssa.Value]string{}
				for k, s := range subst {
					ns[k] = s
				}
				for i, p := range h.Params {
					ns[p] = exprStrSubst(ci.Common().Args[i], o, subst)
				}
				if mc, ok := ci.Common().Value.(*ssa.MakeClosure); ok {
					for i, fv := range h.FreeVars {
						if i < len(mc.Bindings) {
							ns[fv] = exprStrSubst(mc.Bindings[i], o, subst)
						}
					}
				}
				rec(h, ns, depth+1)
			}
		}
	}
	rec(f, nil, 0)
}

// robustCalls lists "callee(args…)" for every call made by f or by helpers it
// uses (helpers themselves are not listed), restricted by keep.
func robustCalls(f *ssa.Function, o exprOpts, keep func(name string) bool) []string {
	set := map[string]bool{}
	visitWithHelpers(f, o, func(g *ssa.Function, subst map[ssa.Value]string, in ssa.Instruction) {
		ci, ok := in.(ssa.CallInstruction)
		if !ok {
			return
		}
		cc := ci.Common()
		if _, isB := cc.Value.(*ssa.Builtin); isB {
			return
		}
		name := ""
		if cc.IsInvoke() {
			name = exprStrSubst(cc.Value, o, subst) + "." + cc.Method.Name()
		} else if h := cc.StaticCallee(); h != nil {
			if _, isClosure := cc.Value.(*ssa.MakeClosure); !isClosure && o.inline != nil && o.inline(h) {
				return
			}
			name = relName(h.String())
			if h.Origin() != nil {
				name = relName(h.Origin().String())
			}
		} else {
			name = exprStrSubst(cc.Value, o, subst)
		}
		if keep != nil && !keep(abbr(name)) {
			return
		}
		var args []string
		for _, a := range cc.Args {
			args = append(args, exprStrSubst(a, o, subst))
		}
		set[name+"("+strings.Join(args, ", ")+")"] = true
	})
	var out []string
	for s := range set {
		out = append(out, s)
	}
	sort.Strings(out)
	return out
}

// requireAtoms: every required atom is among the tests f makes.
func (c *Ctx) requireAtoms(rule, key string, f *ssa.Function, o exprOpts, required []string) {
	got := abbrAll(condAtoms(f, o))
	have := map[string]bool{}
	for _, g := range got {
		have[g] = true
	}
	for _, w := range required {
		if have[w] {
			c.OK(rule, key+" · tests "+w, f.Pos(), "test present")
		} else {
			c.Bad(rule, key+" · tests "+w, f.Pos(), "the required test %s is not made; tests made: {%s}", w, strings.Join(got, " ; "))
		}
	}
}

// requireSet: got (a set of canonical strings) equals want as a set.
func (c *Ctx) requireSet(rule, key string, pos token.Pos, what string, got, want []string) {
	g := append([]string{}, got...)
	w := append([]string{}, want...)
	sort.Strings(g)
	sort.Strings(w)
	if strings.Join(g, " ;; ") == strings.Join(w, " ;; ") {
		c.OK(rule, key, pos, "%s: %s", what, strings.Join(g, " ;; "))
	} else {
		c.Bad(rule, key, pos, "%s is {%s}; the specification requires {%s}", what, strings.Join(g, " ;; "), strings.Join(w, " ;; "))
	}
}

// requireContains: every wanted string is in got.
func (c *Ctx) requireContains(rule, key string, pos token.Pos, what string, got, want []string) {
	have := map[string]bool{}
	for _, g := range got {
		have[g] = true
	}
	for _, w := range want {
		if have[w] {
			c.OK(rule, key+" · "+w, pos, "%s present", what)
		} else {
			c.Bad(rule, key+" · "+w, pos, "required %s missing; found: %s", what, strings.Join(got, " ;; "))
		}
	}
}

// catValues flattens the buffer v into the operands appended to it, at value
// level: append chains, empty bases (nil, make(T,0,…), x[:0]), a buffer
// carried round a loop and cut back to a constant-length prefix.
func catValues(v ssa.Value) []ssa.Value {
	return catValuesD(v, map[ssa.Value]bool{}, 0)
}

func catValuesD(v ssa.Value, on map[ssa.Value]bool, d int) []ssa.Value {
	if d > 20 {
		return []ssa.Value{v}
	}
	switch x := v.(type) {
	case *ssa.ChangeType:
		return catValuesD(x.X, on, d+1)
	case *ssa.Convert:
		if _, ok := x.Type().Underlying().(*types.Slice); ok {
			if _, ok := x.X.Type().Underlying().(*types.Slice); ok {
				return catValuesD(x.X, on, d+1)
			}
		}
	case *ssa.Const:
		if x.Value == nil {
			return nil
		}
	case *ssa.MakeSlice:
		if k, ok := constInt(x.Len); ok && k == 0 {
			return nil
		}
	case *ssa.Slice:
		if x.High != nil && x.Low == nil {
			if k, ok := constInt(x.High); ok {
				if k == 0 {
					return nil
				}
				// cut back to a constant-length prefix
				isPrefix := func(p ssa.Value) bool {
					c, ok := p.(*ssa.Const)
					return ok && c.Value != nil && c.Value.Kind() == constant.String && int64(len(constant.StringVal(c.Value))) == k
				}
				if ph, isPhi := x.X.(*ssa.Phi); isPhi && !on[ph] {
					// a buffer carried round a loop: every way of reaching the phi must leave the same k-byte prefix in place
					on[ph] = true
					var pref ssa.Value
					okAll := true
					for _, e := range ph.Edges {
						p := catValuesD(e, on, d+1)
						switch {
						case len(p) >= 1 && isPrefix(p[0]):
							if pref == nil {
								pref = p[0]
							} else if !sameConstOrValue(pref, p[0]) {
								okAll = false
							}
						case len(p) >= 1 && p[0] == ssa.Value(ph):
						case len(p) >= 1:
							if sl, ok := p[0].(*ssa.Slice); ok && sl.X == ssa.Value(ph) && sl.Low == nil && sl.High != nil {
								if k2, ok := constInt(sl.High); ok && k2 >= k {
									break
								}
							}
							okAll = false
						default:
							okAll = false
						}
					}
					delete(on, ph)
					if okAll && pref != nil {
						return []ssa.Value{pref}
					}
					return []ssa.Value{v}
				}
				parts := catValuesD(x.X, on, d+1)
				if len(parts) >= 1 && isPrefix(parts[0]) {
					return parts[:1]
				}
			}
		}
	case *ssa.Call:
		if b, ok := x.Call.Value.(*ssa.Builtin); ok && b.Name() == "append" && len(x.Call.Args) == 2 {
			return append(append([]ssa.Value{}, catValuesD(x.Call.Args[0], on, d+1)...), x.Call.Args[1])
		}
	case *ssa.Phi:
		if on[v] {
			return []ssa.Value{v}
		}
		on[v] = true
		defer delete(on, v)
		// all alternatives must agree on their first part (the kept prefix); the shortest common prefix is returned
		var common []ssa.Value
		for i, e := range x.Edges {
			p := catValuesD(e, on, d+1)
			if i == 0 {
				common = p
				continue
			}
			n := 0
			for n < len(common) && n < len(p) && sameConstOrValue(common[n], p[n]) {
				n++
			}
			common = common[:n]
		}
		return common
	}
	return []ssa.Value{v}
}

// wholeOf: v is x[:] — returns x (the array/slice value or its address).
func wholeOf(v ssa.Value) (ssa.Value, bool) {
	v = stripConv(v)
	if sl, ok := v.(*ssa.Slice); ok && sl.Low == nil && sl.High == nil {
		return sl.X, true
	}
	return v, false
}

func sameConstOrValue(a, b ssa.Value) bool {
	if a == b {
		return true
	}
	ca, ok1 := a.(*ssa.Const)
	cb, ok2 := b.(*ssa.Const)
	if !ok1 || !ok2 || ca.Value == nil || cb.Value == nil {
		return ok1 && ok2 && ca.Value == nil && cb.Value == nil
	}
	return ca.Value.Kind() == cb.Value.Kind() && constant.Compare(ca.Value, token.EQL, cb.Value)
}

// constFeasible blocks the successor edge that a constant branch condition can never take.
func constFeasible(e edge) bool {
	ifi, ok := e.from.Instrs[len(e.from.Instrs)-1].(*ssa.If)
	if !ok {
		return false
	}
	k, ok := ifi.Cond.(*ssa.Const)
	if !ok || k.Value == nil || k.Value.Kind() != constant.Bool {
		return false
	}
	taken := 1
	if constant.BoolVal(k.Value) {
		taken = 0
	}
	return e.succ != taken
}

// mustPassAfter: every path from the given edges to a return passes an
// instruction satisfying must (branches on constant conditions are resolved).
func mustPassAfter(edges []edge, must func(ssa.Instruction) bool) bool {
	if len(edges) == 0 {
		return false
	}
	_, reach := findPath(pathQuery{startEdges: edges, target: func(in ssa.Instruction) bool { _, ok := in.(*ssa.Return); return ok }, blocker: must, edgeBlock: constFeasible})
	return !reach
}

// expandSeq expands the first seq(a, b, …) in s into one string per element, in order.
func expandSeq(s string) []string {
	i := strings.Index(s, "seq(")
	if i < 0 {
		return []string{s}
	}
	depth, j := 0, -1
	for k := i + 3; k < len(s); k++ {
		switch s[k] {
		case '(':
			depth++
		case ')':
			depth--
			if depth == 0 {
				j = k
			}
		}
		if j >= 0 {
			break
		}
	}
	if j < 0 {
		return []string{s}
	}
	inner := s[i+4 : j]
	var elems []string
	depth, start := 0, 0
	for k := 0; k < len(inner); k++ {
		switch inner[k] {
		case '(', '[', '{':
			depth++
		case ')', ']', '}':
			depth--
		case ',':
			if depth == 0 && k+1 < len(inner) && inner[k+1] == ' ' {
				elems = append(elems, inner[start:k])
				start = k + 2
			}
		}
	}
	elems = append(elems, inner[start:])
	var out []string
	for _, e := range elems {
		out = append(out, expandSeq(s[:i]+e+s[j+1:])...)
	}
	return out
}

// mustCallOnEveryPath: every path from f's entry to a return that does not report an error calls a function
// whose name ends in suffix (constant branches resolved).
func mustCallOnEveryPath(f *ssa.Function, suffix string) bool {
	_, reach := findPath(pathQuery{fn: f, target: func(in ssa.Instruction) bool {
		r, ok := in.(*ssa.Return)
		return ok && !isErrorReturn(f, r) && !isErrorCodeReturn(r)
	},
		blocker: func(in ssa.Instruction) bool {
			ci, ok := in.(ssa.CallInstruction)
			if !ok {
				return false
			}
			name := ""
			if ci.Common().IsInvoke() {
				name = ci.Common().Method.Name()
			} else if sc := calleeFunc(ci); sc != nil {
				name = relName(sc.String())
			}
			return strings.HasSuffix(name, suffix)
		}, edgeBlock: constFeasible})
	return !reach
}

// isErrorCodeReturn: the function reports failure through a *types.ErrorCode
// result and this return hands back a non-nil one.
func isErrorCodeReturn(r *ssa.Return) bool {
	res := retResults(r)
	if len(res) == 0 {
		return false
	}
	v := res[len(res)-1]
	if !strings.HasSuffix(typeStr(v.Type()), "types.ErrorCode") {
		return false
	}
	if _, ok := v.Type().Underlying().(*types.Pointer); !ok {
		return false
	}
	var nonNil func(v ssa.Value, d int) bool
	nonNil = func(v ssa.Value, d int) bool {
		if d > 6 {
			return false
		}
		switch x := v.(type) {
		case *ssa.Const:
			return !x.IsNil()
		case *ssa.Alloc:
			return true
		case *ssa.Phi:
			for _, e := range x.Edges {
				if !nonNil(e, d+1) {
					return false
				}
			}
			return true
		}
		return false
	}
	if nonNil(v, 0) {
		return true
	}
	// err returned right after `if err != nil`
	f := r.Parent()
	pass := condEdges(f, func(cv ssa.Value) (bool, bool) {
		b, ok := cv.(*ssa.BinOp)
		if !ok {
			return false, false
		}
		if b.X == v || b.Y == v {
			if k, isK := b.Y.(*ssa.Const); isK && k.IsNil() || func() bool { k2, isK2 := b.X.(*ssa.Const); return isK2 && k2.IsNil() }() {
				return true, b.Op == token.NEQ
			}
		}
		return false, false
	})
	return len(pass) > 0 && guardedBy(f, r, pass)
}

// normEach rewrites the two ways of building "one element per item of a
// sequence" to one form, each[E]:
//
//	⊕(make([]T, 0); [E][:])          (append in a loop to an empty slice)
//	make([]T, n){[*] ← E}            (indexed fill of a pre-sized slice)
func normEach(s string) string {
	for guard := 0; guard < 20; guard++ {
		changed := false
		if i := strings.Index(s, "⊕(make([]"); i >= 0 {
			open := i + len("⊕")
			if j := matchParen(s, open); j > 0 {
				inner := s[open+1 : j]
				if k := topLevelIndex(inner, "; "); k > 0 {
					init, elems := inner[:k], inner[k+2:]
					if strings.HasSuffix(init, ", 0)") && strings.HasPrefix(elems, "[") && strings.HasSuffix(elems, "][:]") {
						s = s[:i] + "each[" + elems[1:len(elems)-4] + "]" + s[j+1:]
						changed = true
					}
				}
			}
		}
		if !changed {
			if i := strings.Index(s, "){[*] ← "); i >= 0 {
				// find the start of this make(
				st := strings.LastIndex(s[:i], "make([]")
				if st >= 0 && matchParen(s, st+4) == i {
					bo := i + 1
					if bc := matchBrace(s, bo); bc > 0 {
						body := s[bo+1 : bc]
						if topLevelIndex(body, "; ") < 0 {
							s = s[:st] + "each[" + strings.TrimPrefix(body, "[*] ← ") + "]" + s[bc+1:]
							changed = true
						}
					}
				}
			}
		}
		if !changed {
			break
		}
	}
	return s
}

func matchParen(s string, open int) int {
	if open >= len(s) || s[open] != '(' {
		return -1
	}
	d := 0
	for k := open; k < len(s); k++ {
		switch s[k] {
		case '(':
			d++
		case ')':
			d--
			if d == 0 {
				return k
			}
		}
	}
	return -1
}

func matchBrace(s string, open int) int {
	if open >= len(s) || s[open] != '{' {
		return -1
	}
	d := 0
	for k := open; k < len(s); k++ {
		switch s[k] {
		case '{':
			d++
		case '}':
			d--
			if d == 0 {
				return k
			}
		}
	}
	return -1
}

func topLevelIndex(s, sep string) int {
	d := 0
	for k := 0; k+len(sep) <= len(s); k++ {
		switch s[k] {
		case '(', '[', '{':
			d++
		case ')', ']', '}':
			d--
		}
		if d == 0 && strings.HasPrefix(s[k:], sep) {
			return k
		}
	}
	return -1
}

func normEachAll(xs []string) []string {
	out := make([]string, len(xs))
	for i, x := range xs {
		out[i] = normEach(x)
	}
	return out
}

// sumAddends flattens a rendered sum "((a + b) + c)" into its sorted addends.
func sumAddends(s string) []string {
	s = strings.TrimSpace(s)
	if len(s) > 2 && s[0] == '(' && matchParen(s, 0) == len(s)-1 {
		inner := s[1 : len(s)-1]
		if k := topLevelIndex(inner, " + "); k > 0 {
			out := append(sumAddends(inner[:k]), sumAddends(inner[k+3:])...)
			sort.Strings(out)
			return out
		}
	}
	return []string{s}
}

// sigmaTerms: the per-iteration terms of accumulations that are added up to
// one total, whatever the number of accumulators: Σ(Σ(0; A); B), (Σ(0; A) + Σ(0; B)),
// Σ(0; A) + Σ(0; B) in either order. Each term is returned as its sorted addends joined by " + ".
func sigmaTerms(s string) ([]string, bool) {
	s = strings.TrimSpace(s)
	for _, conv := range []string{"u64(", "u32(", "int(", "i64("} {
		if strings.HasPrefix(s, conv) && matchParen(s, len(conv)-1) == len(s)-1 {
			return sigmaTerms(s[len(conv) : len(s)-1])
		}
	}
	if s == "0" {
		return nil, true
	}
	if strings.HasPrefix(s, "Σ(") && matchParen(s, len("Σ")) == len(s)-1 {
		inner := s[len("Σ(") : len(s)-1]
		k := topLevelIndex(inner, "; ")
		if k < 0 {
			return nil, false
		}
		base, ok := sigmaTerms(inner[:k])
		if !ok {
			return nil, false
		}
		return append(base, strings.Join(sumAddends(inner[k+2:]), " + ")), true
	}
	if len(s) > 2 && s[0] == '(' && matchParen(s, 0) == len(s)-1 {
		inner := s[1 : len(s)-1]
		if k := topLevelIndex(inner, " + "); k > 0 {
			a, ok1 := sigmaTerms(inner[:k])
			b, ok2 := sigmaTerms(inner[k+3:])
			if ok1 && ok2 {
				return append(a, b...), true
			}
		}
	}
	return nil, false
}
