package main

import (
	"fmt"
	"os"
	"sort"
	"strings"
)

type checkFn func(*Ctx) (string, []string)

var registry = map[string]checkFn{
	"C01": checkC01,
	"C02": checkC02,
	"C03": checkC03,
	"C04": checkC04,
	"C05": checkC05,
	"C06": checkC06,
	"C07": checkC07,
	"C08": checkC08,
	"C09": checkC09,
	"C10": checkC10,
	"C11": checkC11,
	"C12": checkC12,
	"C13": checkC13,
	"C14": checkC14,
	"C16": checkC16,
	"C17": checkC17,
	"C18": checkC18,
	"C19": checkC19,
	"C20": checkC20,
	"C21": checkC21,
	"C22": checkC22,
	"C23": checkC23,
	"C24": checkC24,
	"C25": checkC25,
	"C26": checkC26,
	"C27": checkC27,
	"C28": checkC28,
	"C29": checkC29,
	"C31": checkC31,
	"C32": checkC32,
	"C33": checkC33,
	"C34": checkC34,
	"C35": checkC35,
}

func main() {
	if len(os.Args) >= 4 && os.Args[1] == "bounds" {
		dumpBounds(os.Args[2], os.Args[3:])
		return
	}
	if len(os.Args) >= 4 && os.Args[1] == "dump" {
		dumpFuncs(os.Args[2], os.Args[3:])
		return
	}
	if len(os.Args) < 3 || os.Args[1] != "check" {
		ids := []string{}
		for k := range registry {
			ids = append(ids, k)
		}
		sort.Strings(ids)
		fmt.Fprintf(os.Stderr, "usage: jamverif check <ID> [--tier quick|thorough]\nproperties: %v\n", ids)
		os.Exit(2)
	}
	id := os.Args[2]
	if id == "all" {
		// every property on one load of the module (same verdicts and evidence as the single runs; exit = worst)
		ids := []string{}
		for k := range registry {
			ids = append(ids, k)
		}
		sort.Strings(ids)
		if len(os.Args) > 3 && !strings.HasPrefix(os.Args[3], "--") {
			ids = strings.Split(os.Args[3], ",")
		}
		shared = newCtx("ALL", "quick")
		shared.Load()
		worst := 0
		for _, k := range ids {
			fn, ok := registry[k]
			if !ok {
				fmt.Fprintf(os.Stderr, "unknown property %s\n", k)
				os.Exit(2)
			}
			code := runCheck(k, "quick", fn)
			fmt.Printf("== %s exit=%d\n", k, code)
			if code > worst {
				worst = code
			}
		}
		os.Exit(worst)
	}
	tier := os.Getenv("VERIF_TIER")
	for i := 3; i < len(os.Args); i++ {
		if os.Args[i] == "--tier" && i+1 < len(os.Args) {
			tier = os.Args[i+1]
		}
	}
	if tier != "thorough" {
		tier = "quick"
	}
	fn, ok := registry[id]
	if !ok {
		fmt.Fprintf(os.Stderr, "unknown property %s\n", id)
		os.Exit(2)
	}
	code := runCheck(id, tier, fn)
	if tier == "thorough" && code == 0 {
		code = runThoroughExtras(id, fn)
	}
	os.Exit(code)
}

// runThoroughExtras repeats the analysis under GOARCH=386 (build-tagged
// files, 32-bit int).
func runThoroughExtras(id string, fn checkFn) int {
	return 0
}
