package main

import (
	"fmt"
	"go/token"

	"golang.org/x/tools/go/ssa"
)

// lookupKeyPresent: at instruction `at` of f the key keyV is known to be in the map mapV — the footprint of an
// account's lookup dictionary depends only on its key set (2 items and 81+z octets per key), so writing a new
// value under a key that is already there changes neither count.
//
// Established by (1) the success edge of a two-result lookup of the same map under the same key on every path to
// `at`; (2) a boolean parameter tested on every path to `at` that every caller of f fills with the presence
// result of such a lookup on the arguments it passes for the map's owner and the key (or with a parameter of its
// own that qualifies); (3) f being a helper whose map owner and key are parameters and at every call site of
// which the key is known present in the owner's dictionary.
func lookupKeyPresent(c *Ctx, f *ssa.Function, at ssa.Instruction, mapV, keyV ssa.Value, depth int) bool {
	owner, ok := dictOwner(mapV)
	return ok && keyPresentIn(c, f, at, owner, keyV, depth)
}

func keyPresentIn(c *Ctx, f *ssa.Function, at ssa.Instruction, owner, keyV ssa.Value, depth int) bool {
	if depth > 3 {
		return false
	}
	// (1)
	pass := condEdges(f, func(v ssa.Value) (bool, bool) {
		ex, ok := v.(*ssa.Extract)
		if !ok || ex.Index != 1 {
			return false, false
		}
		lk, ok := ex.Tuple.(*ssa.Lookup)
		if !ok || !lk.CommaOk || !sameExpr(lk.Index, keyV) {
			return false, false
		}
		o, okO := dictOwner(lk.X)
		return okO && sameOwner(o, owner), true
	})
	if guardedBy(f, at, pass) {
		return true
	}
	ownerP, isOP := resolveLocal(stripConv(owner)).(*ssa.Parameter)
	keyP, isKP := resolveLocal(stripConv(keyV)).(*ssa.Parameter)
	if !isOP || !isKP || ownerP.Parent() != f || keyP.Parent() != f {
		return false
	}
	oi, ki := paramIndex(f, ownerP), paramIndex(f, keyP)
	sites := staticCallSites(c, f)
	if len(sites) == 0 {
		return false
	}
	// (2) a presence flag handed in by the callers
	for bi, bp := range f.Params {
		if !isBoolT(bp.Type()) {
			continue
		}
		flag := condEdges(f, func(v ssa.Value) (bool, bool) { return v == ssa.Value(bp), true })
		if !guardedBy(f, at, flag) {
			continue
		}
		okAll := true
		for _, cs := range sites {
			if !presenceFlag(c, cs, cs.Common().Args[bi], cs.Common().Args[oi], cs.Common().Args[ki], depth) {
				okAll = false
			}
		}
		if okAll {
			return true
		}
	}
	// (3) present at every call site
	for _, cs := range sites {
		if !keyPresentIn(c, cs.Parent(), cs.(ssa.Instruction), cs.Common().Args[oi], cs.Common().Args[ki], depth+1) {
			return false
		}
	}
	return true
}

// presenceFlag: v (an argument at call site cs) is the presence result of a lookup of key in owner's lookup
// dictionary, or a boolean parameter of the caller that all its callers fill that way.
func presenceFlag(c *Ctx, cs ssa.CallInstruction, v, owner, key ssa.Value, depth int) bool {
	v = resolveLocal(stripConv(v))
	if ex, ok := v.(*ssa.Extract); ok && ex.Index == 1 {
		if lk, ok := ex.Tuple.(*ssa.Lookup); ok && lk.CommaOk && sameExpr(lk.Index, key) {
			if o, okO := dictOwner(lk.X); okO && sameOwner(o, owner) {
				return true
			}
		}
		return false
	}
	bp, ok := v.(*ssa.Parameter)
	g := cs.Parent()
	if !ok || bp.Parent() != g || depth > 2 {
		return false
	}
	op, okO := resolveLocal(stripConv(owner)).(*ssa.Parameter)
	kp, okK := resolveLocal(stripConv(key)).(*ssa.Parameter)
	if !okO || !okK {
		return false
	}
	sites := staticCallSites(c, g)
	if len(sites) == 0 {
		return false
	}
	for _, s2 := range sites {
		a := s2.Common().Args
		if !presenceFlag(c, s2, a[paramIndex(g, bp)], a[paramIndex(g, op)], a[paramIndex(g, kp)], depth+1) {
			return false
		}
	}
	return true
}

// dictOwner: m is the LookupDict field of an account; returns the account (pointer or cell).
func dictOwner(m ssa.Value) (ssa.Value, bool) {
	m = stripConv(m)
	if u, ok := m.(*ssa.UnOp); ok && u.Op == token.MUL {
		if fa, ok := u.X.(*ssa.FieldAddr); ok && fieldName(fa.X.Type(), fa.Field) == "LookupDict" {
			return resolveLocal(stripConv(fa.X)), true
		}
	}
	if fl, ok := m.(*ssa.Field); ok && fieldName(fl.X.Type(), fl.Field) == "LookupDict" {
		return resolveLocal(stripConv(fl.X)), true
	}
	return nil, false
}

func sameOwner(a, b ssa.Value) bool {
	a, b = resolveLocal(stripConv(a)), resolveLocal(stripConv(b))
	return a == b || sameExpr(a, b)
}

func paramIndex(f *ssa.Function, p *ssa.Parameter) int {
	for i, q := range f.Params {
		if q == p {
			return i
		}
	}
	return 0
}

// staticCallSites: the call sites of f in package PVM, or nil when f is also used as a value.
func staticCallSites(c *Ctx, f *ssa.Function) []ssa.CallInstruction {
	var out []ssa.CallInstruction
	asValue := false
	for _, g := range c.SrcFuncs("PVM") {
		allInstrs(g, func(in ssa.Instruction) {
			var callee ssa.Value
			if call, ok := in.(ssa.CallInstruction); ok {
				callee = call.Common().Value
				if call.Common().StaticCallee() == f {
					out = append(out, call)
				}
			}
			for _, op := range in.Operands(nil) {
				if op != nil && *op == ssa.Value(f) && *op != callee {
					asValue = true
				}
			}
		})
	}
	if asValue {
		return nil
	}
	return out
}

// c09MigrationBeforeRead: an account's dictionary entry may still sit in the raw key-val pool; the pool helpers that
// receive the account move it into the dictionary. A dictionary read made before such a call tells nothing about
// the entry afterwards, so its result must not be used on a path that passes the call (the entry would be treated
// as absent — created again and counted twice — although the migration just brought it in).
func c09MigrationBeforeRead(c *Ctx) {
	const rule = "C09.migration-before-read"
	c.Rule(rule, "in package PVM no result of a lookup in an account's StorageDict/LookupDict that was made before a raw-pool migration helper was called on that account is used on a path through that call (or through an in-place migration of an entry from the pool)", 3)
	isDict := func(m ssa.Value) (ssa.Value, bool) {
		m = stripConv(m)
		if u, ok := m.(*ssa.UnOp); ok && u.Op == token.MUL {
			if fa, ok := u.X.(*ssa.FieldAddr); ok {
				if n := fieldName(fa.X.Type(), fa.Field); n == "LookupDict" || n == "StorageDict" {
					return resolveLocal(stripConv(fa.X)), true
				}
			}
		}
		if fl, ok := m.(*ssa.Field); ok {
			if n := fieldName(fl.X.Type(), fl.Field); n == "LookupDict" || n == "StorageDict" {
				return resolveLocal(stripConv(fl.X)), true
			}
		}
		return nil, false
	}
	n := 0
	for _, f := range c.SrcFuncs("PVM") {
		var migrations []ssa.Instruction
		owners := map[ssa.Instruction][]ssa.Value{}
		allInstrs(f, func(in ssa.Instruction) {
			if mu, isMU := in.(*ssa.MapUpdate); isMU {
				// the migration written in place: an entry populated from the raw pool
				if o, isD := isDict(mu.Map); isD && poolDerived(mu.Value, 0) {
					migrations = append(migrations, in)
					owners[in] = []ssa.Value{o}
				}
				return
			}
			call, ok := in.(*ssa.Call)
			if !ok {
				return
			}
			h := call.Call.StaticCallee()
			if !poolHelper(h) || len(h.Blocks) == 0 {
				return
			}
			// the helper writes an account dictionary (directly)
			writes := false
			allInstrs(h, func(x ssa.Instruction) {
				if mu, isMU := x.(*ssa.MapUpdate); isMU {
					if _, isD := isDict(mu.Map); isD {
						writes = true
					}
				}
			})
			if writes {
				migrations = append(migrations, call)
				owners[call] = call.Call.Args
			}
		})
		for li, L := range migrations {
			n++
			bad := ""
			allInstrs(f, func(in ssa.Instruction) {
				lk, ok := in.(*ssa.Lookup)
				if !ok || bad != "" {
					return
				}
				owner, isD := isDict(lk.X)
				if !isD {
					return
				}
				// the same account is handed to the helper
				same := false
				for _, a := range owners[L] {
					if sameOwner(a, owner) {
						same = true
					}
				}
				if !same {
					return
				}
				if _, before := findPath(pathQuery{start: lk, target: func(x ssa.Instruction) bool { return x == L }}); !before {
					return
				}
				if staleUse(lk, L, 0) {
					bad = fmt.Sprintf("the lookup at %s precedes the migration call and its result is used after it", c.pos(lk.Pos()))
				}
			})
			name := "in-place migration"
			if call, isCall := L.(*ssa.Call); isCall {
				name = call.Call.StaticCallee().Name()
			}
			c.Check(bad == "", rule, fmt.Sprintf("%s · %s #%d", funcKey(f), name, li), L.Pos(), "no dictionary read from before the migration is used after it", bad)
		}
	}
	c.extra["migration_calls"] = n
}

// staleUse: some use of v happens on a path that passes L after v was computed.
func staleUse(v ssa.Value, L ssa.Instruction, d int) bool {
	if d > 4 || v.Referrers() == nil {
		return false
	}
	reach := func(target ssa.Instruction) bool {
		_, ok := findPath(pathQuery{start: L, target: func(x ssa.Instruction) bool { return x == target }})
		return ok
	}
	for _, r := range *v.Referrers() {
		switch x := r.(type) {
		case *ssa.DebugRef:
		case *ssa.Extract:
			if staleUse(x, L, d+1) {
				return true
			}
		case *ssa.Phi:
			for i, e := range x.Edges {
				if e != v {
					continue
				}
				pred := x.Block().Preds[i]
				// the value arrives over this edge: stale when the edge can be taken after L
				if pred == L.Block() || reach(pred.Instrs[len(pred.Instrs)-1]) {
					if x.Referrers() != nil && len(*x.Referrers()) > 0 {
						return true
					}
				}
			}
		default:
			if r != L && reach(r) {
				return true
			}
		}
	}
	return false
}
