package main

import (
	"go/token"

	"golang.org/x/tools/go/ssa"
)

// lookupKeyPresent: at instruction `at` of f the key keyV is known to be in the map mapV — the footprint of an
// account's lookup dictionary depends only on its key set (2 items and 81+z octets per key), so writing a new
// value under a key that is already there changes neither count.
//
// Established by (1) the success edge of a two-result lookup of the same map under the same key on every path to
// `at`; (2) a boolean parameter tested on every path to `at` that every caller of f fills with the presence
// result of such a lookup on the arguments it passes for the map's owner and the key (or with a parameter of its
// own that qualifies); (3) f being a helper whose map owner and key are parameters and at every call site of
// which the key is known present in the owner's dictionary.
func lookupKeyPresent(c *Ctx, f *ssa.Function, at ssa.Instruction, mapV, keyV ssa.Value, depth int) bool {
	owner, ok := dictOwner(mapV)
	return ok && keyPresentIn(c, f, at, owner, keyV, depth)
}

func keyPresentIn(c *Ctx, f *ssa.Function, at ssa.Instruction, owner, keyV ssa.Value, depth int) bool {
	if depth > 3 {
		return false
	}
	// (1)
	pass := condEdges(f, func(v ssa.Value) (bool, bool) {
		ex, ok := v.(*ssa.Extract)
		if !ok || ex.Index != 1 {
			return false, false
		}
		lk, ok := ex.Tuple.(*ssa.Lookup)
		if !ok || !lk.CommaOk || !sameExpr(lk.Index, keyV) {
			return false, false
		}
		o, okO := dictOwner(lk.X)
		return okO && sameOwner(o, owner), true
	})
	if guardedBy(f, at, pass) {
		return true
	}
	ownerP, isOP := resolveLocal(stripConv(owner)).(*ssa.Parameter)
	keyP, isKP := resolveLocal(stripConv(keyV)).(*ssa.Parameter)
	if !isOP || !isKP || ownerP.Parent() != f || keyP.Parent() != f {
		return false
	}
	oi, ki := paramIndex(f, ownerP), paramIndex(f, keyP)
	sites := staticCallSites(c, f)
	if len(sites) == 0 {
		return false
	}
	// (2) a presence flag handed in by the callers
	for bi, bp := range f.Params {
		if !isBoolT(bp.Type()) {
			continue
		}
		flag := condEdges(f, func(v ssa.Value) (bool, bool) { return v == ssa.Value(bp), true })
		if !guardedBy(f, at, flag) {
			continue
		}
		okAll := true
		for _, cs := range sites {
			if !presenceFlag(c, cs, cs.Common().Args[bi], cs.Common().Args[oi], cs.Common().Args[ki], depth) {
				okAll = false
			}
		}
		if okAll {
			return true
		}
	}
	// (3) present at every call site
	for _, cs := range sites {
		if !keyPresentIn(c, cs.Parent(), cs.(ssa.Instruction), cs.Common().Args[oi], cs.Common().Args[ki], depth+1) {
			return false
		}
	}
	return true
}

// presenceFlag: v (an argument at call site cs) is the presence result of a lookup of key in owner's lookup
// dictionary, or a boolean parameter of the caller that all its callers fill that way.
func presenceFlag(c *Ctx, cs ssa.CallInstruction, v, owner, key ssa.Value, depth int) bool {
	v = resolveLocal(stripConv(v))
	if ex, ok := v.(*ssa.Extract); ok && ex.Index == 1 {
		if lk, ok := ex.Tuple.(*ssa.Lookup); ok && lk.CommaOk && sameExpr(lk.Index, key) {
			if o, okO := dictOwner(lk.X); okO && sameOwner(o, owner) {
				return true
			}
		}
		return false
	}
	bp, ok := v.(*ssa.Parameter)
	g := cs.Parent()
	if !ok || bp.Parent() != g || depth > 2 {
		return false
	}
	op, okO := resolveLocal(stripConv(owner)).(*ssa.Parameter)
	kp, okK := resolveLocal(stripConv(key)).(*ssa.Parameter)
	if !okO || !okK {
		return false
	}
	sites := staticCallSites(c, g)
	if len(sites) == 0 {
		return false
	}
	for _, s2 := range sites {
		a := s2.Common().Args
		if !presenceFlag(c, s2, a[paramIndex(g, bp)], a[paramIndex(g, op)], a[paramIndex(g, kp)], depth+1) {
			return false
		}
	}
	return true
}

// dictOwner: m is the LookupDict field of an account; returns the account (pointer or cell).
func dictOwner(m ssa.Value) (ssa.Value, bool) {
	m = stripConv(m)
	if u, ok := m.(*ssa.UnOp); ok && u.Op == token.MUL {
		if fa, ok := u.X.(*ssa.FieldAddr); ok && fieldName(fa.X.Type(), fa.Field) == "LookupDict" {
			return resolveLocal(stripConv(fa.X)), true
		}
	}
	if fl, ok := m.(*ssa.Field); ok && fieldName(fl.X.Type(), fl.Field) == "LookupDict" {
		return resolveLocal(stripConv(fl.X)), true
	}
	return nil, false
}

func sameOwner(a, b ssa.Value) bool {
	a, b = resolveLocal(stripConv(a)), resolveLocal(stripConv(b))
	return a == b || sameExpr(a, b)
}

func paramIndex(f *ssa.Function, p *ssa.Parameter) int {
	for i, q := range f.Params {
		if q == p {
			return i
		}
	}
	return 0
}

// staticCallSites: the call sites of f in package PVM, or nil when f is also used as a value.
func staticCallSites(c *Ctx, f *ssa.Function) []ssa.CallInstruction {
	var out []ssa.CallInstruction
	asValue := false
	for _, g := range c.SrcFuncs("PVM") {
		allInstrs(g, func(in ssa.Instruction) {
			var callee ssa.Value
			if call, ok := in.(ssa.CallInstruction); ok {
				callee = call.Common().Value
				if call.Common().StaticCallee() == f {
					out = append(out, call)
				}
			}
			for _, op := range in.Operands(nil) {
				if op != nil && *op == ssa.Value(f) && *op != callee {
					asValue = true
				}
			}
		})
	}
	if asValue {
		return nil
	}
	return out
}
