package main

// Bit-provenance abstract interpretation of small byte-assembly functions
// (the natural-number decoders of C12).
//
// Domain: every bit of an integer value is the constant 0, the constant 1, one
// named bit of the input bytes, or unknown (⊤). The analysis is partitioned by
// the quantities the specification itself distinguishes — the first input
// byte and the input length are constants of the partition — so that branch
// conditions, shift amounts, slice bounds and loop trip counts that depend
// only on them fold to constants, while the payload bytes stay symbolic.
// A branch whose condition cannot be decided from the bit pattern (interval
// of the pattern against the other operand) is followed both ways. There is
// no solver and no path condition: what is reported for a return is the
// provenance of each result bit on the way that led there.
//
// Memory is modelled only as far as these functions need it: local cells,
// fields of a receiver object, read-only input arrays. Anything else produces
// an unknown value, which is harmless unless it reaches a branch, an index or
// a result (then the partition is undecided and the rule says so).

import (
	"fmt"
	"go/constant"
	"go/token"
	"go/types"
	"math/bits"
	"strings"

	"golang.org/x/tools/go/ssa"
)

type bfBit struct {
	k uint8 // 0 zero, 1 one, 2 input bit i, 3 unknown
	i uint16
}

type bfInt struct {
	b [64]bfBit
	w uint8 // significant bits (1 for bool, 8, 16, 32, 64); bits ≥ w are zero
	s bool  // signed
}

// A slice is a window [lo, hi) with capacity end cp of an array object of the
// heap (obj 0: the nil slice). Array objects keep their elements under the
// element index and their length under bfLenKey.
type bfSlice struct {
	obj        int
	lo, hi, cp int
}

const bfLenKey = -2

type bfPtr struct {
	obj   int // heap object (-1: a package-level variable, not modelled)
	field int // field or element index, -1 for the whole cell
}

// newArray creates an array object of n zero bytes.
func (m *bfMachine) newArray(heap bfHeap, n int) int {
	m.nextObj++
	heap[m.nextObj] = map[int]any{bfLenKey: bfConst(uint64(n), 64, true)}
	return m.nextObj
}

func bfArrayLen(heap bfHeap, obj int) int {
	if l, ok := heap[obj][bfLenKey].(bfInt); ok {
		c, _ := l.concrete()
		return int(c)
	}
	return 0
}

func bfElem(heap bfHeap, obj, i int) bfInt {
	if v, ok := heap[obj][i].(bfInt); ok {
		return v
	}
	return bfConst(0, 8, false)
}

// bfArr: the value of an array of integers (element k under k; missing = zero).
type bfArr struct {
	n  int
	el map[int]any
}

type bfErr struct{ nonNil bool }

// a constant string (only as the source of a []byte conversion or of append(bytes, s...))
type bfStr struct{ s string }

// a function value with its captured variables, and a standard slice iterator (slices.All / Backward / Values)
type bfClosure struct {
	fn   *ssa.Function
	bind []any
}

// bfOpaqueFn: a function value the rule models itself (the hash function stored in a structure)
type bfOpaqueFn struct{ name string }

type bfIter struct {
	kind string // "All", "Backward", "Values"
	sl   bfSlice
}
type bfTuple []any
type bfUnknown struct{ why string }

type bfHeap map[int]map[int]any

func (h bfHeap) clone() bfHeap {
	out := bfHeap{}
	for o, fs := range h {
		m := map[int]any{}
		for f, v := range fs {
			m[f] = v
		}
		out[o] = m
	}
	return out
}

type bfOutcome struct {
	results []any
	heap    bfHeap
	fault   string // "" or a description: runtime panic (index/slice out of range), unsupported construct, fuel
	panics  bool   // the fault is a Go runtime panic of the analysed code
}

type bfMachine struct {
	steps, maxSteps int
	nextObj         int
	forks           int
	// hook: rule-supplied model of a call the machine does not follow (an opaque hash: the rule logs the input and
	// hands out a fresh symbolic value)
	hook func(callee *ssa.Function, args []any, heap bfHeap) (any, bool)
}

// rawElem: element i of an array object as stored (nil: never written, i.e. the element type's zero value).
func rawElem(heap bfHeap, obj, i int) any { return heap[obj][i] }

func bfWidth(t types.Type) (uint8, bool, bool) {
	b, ok := t.Underlying().(*types.Basic)
	if !ok {
		return 0, false, false
	}
	switch b.Kind() {
	case types.Bool, types.UntypedBool:
		return 1, false, true
	case types.Int8:
		return 8, true, true
	case types.Uint8:
		return 8, false, true
	case types.Int16:
		return 16, true, true
	case types.Uint16:
		return 16, false, true
	case types.Int32, types.UntypedRune:
		return 32, true, true
	case types.Uint32:
		return 32, false, true
	case types.Int, types.Int64, types.UntypedInt:
		return 64, true, true
	case types.Uint, types.Uint64, types.Uintptr:
		return 64, false, true
	}
	return 0, false, false
}

func bfConst(c uint64, w uint8, s bool) bfInt {
	var v bfInt
	v.w, v.s = w, s
	for i := 0; i < int(w); i++ {
		if c>>uint(i)&1 == 1 {
			v.b[i] = bfBit{k: 1}
		}
	}
	return v
}

func bfBool(b bool) bfInt {
	if b {
		return bfConst(1, 1, false)
	}
	return bfConst(0, 1, false)
}

func (v bfInt) concrete() (uint64, bool) {
	var c uint64
	for i := 0; i < int(v.w); i++ {
		switch v.b[i].k {
		case 1:
			c |= 1 << uint(i)
		case 0:
		default:
			return 0, false
		}
	}
	return c, true
}

// signed value of a concrete pattern
func (v bfInt) sval(c uint64) int64 {
	if v.s && v.w < 64 && c>>(v.w-1)&1 == 1 {
		return int64(c | ^uint64(0)<<v.w)
	}
	return int64(c)
}

// interval of the unsigned patterns the value can take; ok=false when it may be negative
func (v bfInt) bounds() (lo, hi uint64, ok bool) {
	for i := 0; i < int(v.w); i++ {
		switch v.b[i].k {
		case 1:
			lo |= 1 << uint(i)
			hi |= 1 << uint(i)
		case 0:
		default:
			hi |= 1 << uint(i)
		}
	}
	if v.s && v.b[v.w-1].k != 0 {
		return 0, 0, false
	}
	return lo, hi, true
}

func (v bfInt) String() string {
	if c, ok := v.concrete(); ok {
		return fmt.Sprintf("%d", c)
	}
	var sb strings.Builder
	for i := int(v.w) - 1; i >= 0; i-- {
		switch v.b[i].k {
		case 0:
			sb.WriteByte('0')
		case 1:
			sb.WriteByte('1')
		case 2:
			fmt.Fprintf(&sb, "<%d.%d>", v.b[i].i/8, v.b[i].i%8)
		default:
			sb.WriteByte('?')
		}
	}
	return sb.String()
}

func (v bfInt) trunc(w uint8, s bool) bfInt {
	out := bfInt{w: w, s: s}
	for i := 0; i < int(w) && i < 64; i++ {
		if i < int(v.w) {
			out.b[i] = v.b[i]
		} else if v.s {
			out.b[i] = v.b[v.w-1] // sign extension replicates the top bit, whatever it is
		}
	}
	return out
}

func bfUnknownInt(w uint8, s bool) bfInt {
	v := bfInt{w: w, s: s}
	for i := 0; i < int(w); i++ {
		v.b[i] = bfBit{k: 3}
	}
	return v
}

func bfBitOp(op token.Token, a, b bfBit) bfBit {
	same := a == b && a.k == 2
	switch op {
	case token.AND:
		if a.k == 0 || b.k == 0 {
			return bfBit{}
		}
		if a.k == 1 {
			return b
		}
		if b.k == 1 || same {
			return a
		}
	case token.OR:
		if a.k == 1 || b.k == 1 {
			return bfBit{k: 1}
		}
		if a.k == 0 {
			return b
		}
		if b.k == 0 || same {
			return a
		}
	case token.XOR:
		if a.k == 0 {
			return b
		}
		if b.k == 0 {
			return a
		}
		if a.k == 1 && b.k == 1 || same {
			return bfBit{}
		}
	case token.AND_NOT:
		if a.k == 0 || b.k == 1 || same {
			return bfBit{}
		}
		if b.k == 0 {
			return a
		}
	}
	return bfBit{k: 3}
}

func (m *bfMachine) binop(op token.Token, x, y bfInt, rt types.Type) any {
	w, s, ok := bfWidth(rt)
	if !ok {
		return bfUnknown{"binop result type " + rt.String()}
	}
	cx, okx := x.concrete()
	cy, oky := y.concrete()
	mask := ^uint64(0)
	if w < 64 {
		mask = 1<<w - 1
	}
	switch op {
	case token.EQL, token.NEQ, token.LSS, token.LEQ, token.GTR, token.GEQ:
		if okx && oky {
			var r bool
			if x.s || y.s {
				a, b := x.sval(cx), y.sval(cy)
				r = map[token.Token]bool{token.EQL: a == b, token.NEQ: a != b, token.LSS: a < b, token.LEQ: a <= b, token.GTR: a > b, token.GEQ: a >= b}[op]
			} else {
				r = map[token.Token]bool{token.EQL: cx == cy, token.NEQ: cx != cy, token.LSS: cx < cy, token.LEQ: cx <= cy, token.GTR: cx > cy, token.GEQ: cx >= cy}[op]
			}
			return bfBool(r)
		}
		lx, hx, o1 := x.bounds()
		ly, hy, o2 := y.bounds()
		if o1 && o2 {
			switch op {
			case token.LSS:
				if hx < ly {
					return bfBool(true)
				}
				if lx >= hy {
					return bfBool(false)
				}
			case token.LEQ:
				if hx <= ly {
					return bfBool(true)
				}
				if lx > hy {
					return bfBool(false)
				}
			case token.GTR:
				if lx > hy {
					return bfBool(true)
				}
				if hx <= ly {
					return bfBool(false)
				}
			case token.GEQ:
				if lx >= hy {
					return bfBool(true)
				}
				if hx < ly {
					return bfBool(false)
				}
			case token.EQL, token.NEQ:
				// a bit that is constant and different in the two patterns decides inequality
				diff := hx < ly || hy < lx
				for i := 0; i < 64 && !diff; i++ {
					if x.b[i].k <= 1 && y.b[i].k <= 1 && x.b[i].k != y.b[i].k {
						diff = true
					}
				}
				if diff {
					return bfBool(op == token.NEQ)
				}
				if x.b == y.b {
					return bfBool(op == token.EQL)
				}
			}
		}
		return bfUnknownInt(1, false)
	case token.AND, token.OR, token.XOR, token.AND_NOT:
		out := bfInt{w: w, s: s}
		for i := 0; i < int(w); i++ {
			out.b[i] = bfBitOp(op, x.b[i], y.b[i])
		}
		return out
	case token.SHL, token.SHR:
		if !oky {
			return bfUnknownInt(w, s)
		}
		n := cy
		if y.s && y.sval(cy) < 0 {
			return bfUnknown{"negative shift"}
		}
		out := bfInt{w: w, s: s}
		for i := 0; i < int(w); i++ {
			var src int64
			if op == token.SHL {
				src = int64(i) - int64(n)
			} else {
				src = int64(i) + int64(n)
			}
			switch {
			case n >= 64 || src < 0:
				if op == token.SHR && x.s {
					out.b[i] = x.b[x.w-1]
				}
			case src >= int64(x.w):
				if op == token.SHR && x.s {
					out.b[i] = x.b[x.w-1]
				}
			default:
				out.b[i] = x.b[src]
			}
		}
		return out
	case token.ADD:
		if okx && oky {
			return bfConst((cx+cy)&mask, w, s)
		}
		// no position where both operands can be non-zero: the sum is the union
		out := bfInt{w: w, s: s}
		carry := false
		for i := 0; i < int(w); i++ {
			switch {
			case carry:
				out.b[i] = bfBit{k: 3}
			case x.b[i].k == 0:
				out.b[i] = y.b[i]
			case y.b[i].k == 0:
				out.b[i] = x.b[i]
			default:
				carry = true
				out.b[i] = bfBit{k: 3}
			}
		}
		return out
	case token.SUB:
		if okx && oky {
			return bfConst((cx-cy)&mask, w, s)
		}
		if oky && cy == 0 {
			return x.trunc(w, s)
		}
		return bfUnknownInt(w, s)
	case token.MUL:
		if okx && oky {
			return bfConst((cx*cy)&mask, w, s)
		}
		if okx && cx == 0 || oky && cy == 0 {
			return bfConst(0, w, s)
		}
		if oky && cy&(cy-1) == 0 {
			return m.binop(token.SHL, x, bfConst(uint64(bits.TrailingZeros64(cy)), 64, false), rt)
		}
		if okx && cx&(cx-1) == 0 {
			return m.binop(token.SHL, y, bfConst(uint64(bits.TrailingZeros64(cx)), 64, false), rt)
		}
		return bfUnknownInt(w, s)
	case token.QUO, token.REM:
		if oky && cy == 0 {
			return bfUnknown{"division by zero"}
		}
		if okx && oky {
			if x.s || y.s {
				a, b := x.sval(cx), y.sval(cy)
				if op == token.QUO {
					return bfConst(uint64(a/b)&mask, w, s)
				}
				return bfConst(uint64(a%b)&mask, w, s)
			}
			if op == token.QUO {
				return bfConst((cx/cy)&mask, w, s)
			}
			return bfConst((cx%cy)&mask, w, s)
		}
		if _, _, nonneg := x.bounds(); nonneg && oky && cy&(cy-1) == 0 {
			k := uint64(bits.TrailingZeros64(cy))
			if op == token.QUO {
				return m.binop(token.SHR, x.trunc(x.w, false), bfConst(k, 64, false), rt)
			}
			return m.binop(token.AND, x, bfConst(cy-1, w, s), rt)
		}
		return bfUnknownInt(w, s)
	}
	return bfUnknown{"binop " + op.String()}
}

type bfFrame struct {
	fn   *ssa.Function
	vals map[ssa.Value]any
}

func (fr *bfFrame) clone() *bfFrame {
	out := &bfFrame{fn: fr.fn, vals: make(map[ssa.Value]any, len(fr.vals))}
	for k, v := range fr.vals {
		out.vals[k] = v
	}
	return out
}

func (m *bfMachine) value(fr *bfFrame, v ssa.Value) any {
	if x, ok := fr.vals[v]; ok {
		return x
	}
	switch c := v.(type) {
	case *ssa.Const:
		if c.Value == nil {
			if _, isIface := c.Type().Underlying().(*types.Interface); isIface {
				return bfErr{false}
			}
			if w, s, ok := bfWidth(c.Type()); ok {
				return bfConst(0, w, s)
			}
			if _, isSl := c.Type().Underlying().(*types.Slice); isSl {
				return bfSlice{}
			}
			if _, isPtr := c.Type().Underlying().(*types.Pointer); isPtr {
				return bfPtr{obj: 0, field: -1}
			}
			if at, isArr := c.Type().Underlying().(*types.Array); isArr {
				if _, _, isInt := bfWidth(at.Elem()); isInt {
					return bfArr{n: int(at.Len()), el: map[int]any{}}
				}
			}
			return bfUnknown{"zero value of " + c.Type().String()}
		}
		if c.Value.Kind() == constant.String {
			return bfStr{constant.StringVal(c.Value)}
		}
		w, s, ok := bfWidth(c.Type())
		if !ok {
			return bfUnknown{"constant of type " + c.Type().String()}
		}
		switch c.Value.Kind() {
		case constant.Bool:
			return bfBool(constant.BoolVal(c.Value))
		case constant.Int:
			if u, exact := constant.Uint64Val(c.Value); exact {
				return bfConst(u, w, s)
			}
			if i, exact := constant.Int64Val(c.Value); exact {
				mask := ^uint64(0)
				if w < 64 {
					mask = 1<<w - 1
				}
				return bfConst(uint64(i)&mask, w, s)
			}
		}
		return bfUnknown{"constant " + c.Value.String()}
	case *ssa.Global:
		return bfPtr{obj: -1, field: -1}
	}
	return bfUnknown{"undefined " + v.Name()}
}

func bfIsModuleFunc(f *ssa.Function) bool {
	if f == nil || len(f.Blocks) == 0 {
		return false
	}
	pkg := f.Pkg
	if pkg == nil && f.Origin() != nil {
		pkg = f.Origin().Pkg // instantiations of generic functions carry no package of their own
	}
	return pkg != nil && strings.HasPrefix(pkg.Pkg.Path(), modPath)
}

// call interprets fn on args.
func (m *bfMachine) call(fn *ssa.Function, args []any, heap bfHeap, depth int) []bfOutcome {
	fr := &bfFrame{fn: fn, vals: map[ssa.Value]any{}}
	for i, p := range fn.Params {
		if i < len(args) {
			fr.vals[p] = args[i]
		}
	}
	return m.runFrom(fr, heap, fn.Blocks[0], 0, nil, depth)
}

// callClosure runs a closure with its captured variables bound.
func (m *bfMachine) callClosure(clo bfClosure, args []any, heap bfHeap, depth int) []bfOutcome {
	if depth > 12 {
		return m.fail(heap, "closure nesting too deep", false)
	}
	fr := &bfFrame{fn: clo.fn, vals: map[ssa.Value]any{}}
	for i, p := range clo.fn.Params {
		if i < len(args) {
			fr.vals[p] = args[i]
		}
	}
	for i, fv := range clo.fn.FreeVars {
		if i < len(clo.bind) {
			fr.vals[fv] = clo.bind[i]
		}
	}
	return m.runFrom(fr, heap, clo.fn.Blocks[0], 0, nil, depth)
}

// iterate drives a yield closure over the elements of a slice the way slices.All / Backward / Values do:
// in order (Backward: from the last element), stopping when the closure returns false.
func (m *bfMachine) iterate(it bfIter, clo bfClosure, heap bfHeap, depth int) []bfOutcome {
	n := it.sl.hi - it.sl.lo
	var step func(k int, heap bfHeap) []bfOutcome
	step = func(k int, heap bfHeap) []bfOutcome {
		if k >= n {
			return []bfOutcome{{results: nil, heap: heap}}
		}
		i := k
		if it.kind == "Backward" {
			i = n - 1 - k
		}
		el := bfElem(heap, it.sl.obj, it.sl.lo+i)
		args := []any{bfConst(uint64(i), 64, true), el}
		if it.kind == "Values" {
			args = []any{el}
		}
		var all []bfOutcome
		for _, o := range m.callClosure(clo, args, heap, depth) {
			if o.fault != "" {
				all = append(all, o)
				continue
			}
			more, isInt := bfInt{}, false
			if len(o.results) == 1 {
				more, isInt = o.results[0].(bfInt)
			}
			c, conc := more.concrete()
			switch {
			case !isInt || !conc:
				all = append(all, m.fail(o.heap, "iteration continues on a value the domain cannot decide", false)...)
			case c == 0:
				all = append(all, bfOutcome{results: nil, heap: o.heap})
			default:
				all = append(all, step(k+1, o.heap)...)
			}
		}
		return all
	}
	return step(0, heap)
}

func (m *bfMachine) fail(heap bfHeap, why string, panics bool) []bfOutcome {
	return []bfOutcome{{heap: heap, fault: why, panics: panics}}
}

func (m *bfMachine) runFrom(fr *bfFrame, heap bfHeap, b *ssa.BasicBlock, start int, from *ssa.BasicBlock, depth int) []bfOutcome {
	for {
		if start == 0 && from != nil {
			// phis read the values of the edge taken, simultaneously
			pi := -1
			for i, p := range b.Preds {
				if p == from {
					pi = i
				}
			}
			upd := map[ssa.Value]any{}
			for _, in := range b.Instrs {
				p, ok := in.(*ssa.Phi)
				if !ok {
					break
				}
				if pi < 0 {
					return m.fail(heap, "phi without the edge taken", false)
				}
				upd[p] = m.value(fr, p.Edges[pi])
			}
			for k, v := range upd {
				fr.vals[k] = v
			}
		}
		var next *ssa.BasicBlock
		for idx := start; idx < len(b.Instrs); idx++ {
			in := b.Instrs[idx]
			m.steps++
			if m.steps > m.maxSteps {
				return m.fail(heap, "step budget exhausted in "+fr.fn.Name(), false)
			}
			switch x := in.(type) {
			case *ssa.Phi, *ssa.DebugRef, *ssa.RunDefers, *ssa.Defer:
			case *ssa.Jump:
				next = b.Succs[0]
			case *ssa.If:
				cv, isInt := m.value(fr, x.Cond).(bfInt)
				if c, ok := cv.concrete(); isInt && ok {
					if c != 0 {
						next = b.Succs[0]
					} else {
						next = b.Succs[1]
					}
					break
				}
				if !isInt {
					return m.fail(heap, fmt.Sprintf("branch on a value the domain cannot express (%s in %s)", exprStr(x.Cond, exprOpts{}), fr.fn.Name()), false)
				}
				m.forks++
				if m.forks > 64 {
					return m.fail(heap, "too many data-dependent branches", false)
				}
				out := m.runFrom(fr.clone(), heap.clone(), b.Succs[0], 0, b, depth)
				return append(out, m.runFrom(fr, heap, b.Succs[1], 0, b, depth)...)
			case *ssa.Return:
				res := make([]any, len(x.Results))
				for i, r := range x.Results {
					res[i] = m.value(fr, r)
				}
				return []bfOutcome{{results: res, heap: heap}}
			case *ssa.Panic:
				return m.fail(heap, "explicit panic", true)
			case *ssa.Store:
				p, ok := m.value(fr, x.Addr).(bfPtr)
				if !ok || p.obj < 0 {
					continue // a store the model does not follow (logging buffers, globals)
				}
				if heap[p.obj] == nil {
					heap[p.obj] = map[int]any{}
				}
				if av, isArr := m.value(fr, x.Val).(bfArr); isArr && p.field == -1 {
					heap[p.obj] = map[int]any{bfLenKey: bfConst(uint64(av.n), 64, true)}
					for k, v := range av.el {
						heap[p.obj][k] = v
					}
					continue
				}
				heap[p.obj][p.field] = m.value(fr, x.Val)
			case *ssa.Call:
				outs := m.doCall(fr, heap, x, depth)
				if len(outs) == 1 && outs[0].fault == "" {
					heap = outs[0].heap
					fr.vals[x] = bfPack(outs[0].results)
					continue
				}
				var all []bfOutcome
				for _, o := range outs {
					if o.fault != "" {
						all = append(all, o)
						continue
					}
					f2 := fr.clone()
					f2.vals[x] = bfPack(o.results)
					all = append(all, m.runFrom(f2, o.heap, b, idx+1, nil, depth)...)
				}
				return all
			default:
				v, isVal := in.(ssa.Value)
				if !isVal {
					continue // go, send, map update …: not modelled, no effect on modelled memory
				}
				r, fault, panics := m.eval(fr, heap, v)
				if fault != "" {
					return m.fail(heap, fault, panics)
				}
				fr.vals[v] = r
			}
		}
		if next == nil {
			return m.fail(heap, "control left a block without a modelled terminator", false)
		}
		from, b, start = b, next, 0
	}
}

func bfPack(res []any) any {
	switch len(res) {
	case 0:
		return bfUnknown{"no result"}
	case 1:
		return res[0]
	}
	return bfTuple(res)
}

// eval: value-producing instructions other than calls.
func (m *bfMachine) eval(fr *bfFrame, heap bfHeap, v ssa.Value) (any, string, bool) {
	switch x := v.(type) {
	case *ssa.BinOp:
		a, b := m.value(fr, x.X), m.value(fr, x.Y)
		if ea, ok := a.(bfErr); ok {
			if eb, ok := b.(bfErr); ok && (x.Op == token.EQL || x.Op == token.NEQ) && (!ea.nonNil || !eb.nonNil) {
				return bfBool((ea.nonNil == eb.nonNil) == (x.Op == token.EQL)), "", false
			}
		}
		if pa, ok := a.(bfPtr); ok {
			if pb, ok := b.(bfPtr); ok && (x.Op == token.EQL || x.Op == token.NEQ) && pa.obj >= 0 && pb.obj >= 0 {
				return bfBool((pa == pb) == (x.Op == token.EQL)), "", false
			}
		}
		ia, ok1 := a.(bfInt)
		ib, ok2 := b.(bfInt)
		if !ok1 || !ok2 {
			if w, s, ok := bfWidth(x.Type()); ok {
				return bfUnknownInt(w, s), "", false
			}
			return bfUnknown{"binop on unmodelled operands"}, "", false
		}
		return m.binop(x.Op, ia, ib, x.Type()), "", false
	case *ssa.UnOp:
		a := m.value(fr, x.X)
		switch x.Op {
		case token.MUL:
			p, ok := a.(bfPtr)
			if !ok {
				return bfUnknown{"load through an unmodelled pointer"}, "", false
			}
			if g, isG := x.X.(*ssa.Global); isG {
				// a package-level table that only its initialiser writes
				if es := globalArrayLiteral(g); es != nil {
					out := bfArr{n: len(es), el: map[int]any{}}
					for k, e := range es {
						out.el[k] = m.value(fr, e)
					}
					return out, "", false
				}
			}
			if p.obj == 0 {
				return nil, "nil pointer dereference", true
			}
			if g, isG := x.X.(*ssa.Global); isG {
				// a package-level []byte constant ([]byte("…") assigned once by the initialiser, never written through)
				if str, ok := globalBytesLiteral(g); ok {
					obj := m.newArray(heap, len(str))
					for i := 0; i < len(str); i++ {
						heap[obj][i] = bfConst(uint64(str[i]), 8, false)
					}
					return bfSlice{obj: obj, lo: 0, hi: len(str), cp: len(str)}, "", false
				}
			}
			if p.obj < 0 {
				// package-level variables: error values are non-nil sentinels, the rest is unknown
				if _, isIface := x.Type().Underlying().(*types.Interface); isIface && types.Identical(x.Type(), types.Universe.Lookup("error").Type()) {
					return bfErr{true}, "", false
				}
				return bfUnknown{"package-level variable"}, "", false
			}
			if at, isArr := x.Type().Underlying().(*types.Array); isArr && p.field == -1 {
				if _, has := heap[p.obj][bfLenKey]; has {
					out := bfArr{n: int(at.Len()), el: map[int]any{}}
					for k, v := range heap[p.obj] {
						if k >= 0 {
							out.el[k] = v
						}
					}
					return out, "", false
				}
			}
			if val, ok := heap[p.obj][p.field]; ok {
				return val, "", false
			}
			// zero value of a fresh cell
			if w, s, ok := bfWidth(x.Type()); ok {
				return bfConst(0, w, s), "", false
			}
			if _, isIface := x.Type().Underlying().(*types.Interface); isIface {
				return bfErr{false}, "", false
			}
			if _, isSl := x.Type().Underlying().(*types.Slice); isSl {
				return bfSlice{}, "", false
			}
			if _, isPtr := x.Type().Underlying().(*types.Pointer); isPtr {
				return bfPtr{obj: 0, field: -1}, "", false
			}
			if at, isArr := x.Type().Underlying().(*types.Array); isArr {
				if _, _, isInt := bfWidth(at.Elem()); isInt {
					return bfArr{n: int(at.Len()), el: map[int]any{}}, "", false
				}
			}
			return bfUnknown{"load of an unset cell"}, "", false
		case token.NOT:
			if i, ok := a.(bfInt); ok {
				if c, ok := i.concrete(); ok {
					return bfBool(c == 0), "", false
				}
				return bfUnknownInt(1, false), "", false
			}
		case token.XOR, token.SUB:
			if i, ok := a.(bfInt); ok {
				w, s, _ := bfWidth(x.Type())
				if c, ok := i.concrete(); ok {
					mask := ^uint64(0)
					if w < 64 {
						mask = 1<<w - 1
					}
					if x.Op == token.XOR {
						return bfConst(^c&mask, w, s), "", false
					}
					return bfConst((-c)&mask, w, s), "", false
				}
				return bfUnknownInt(w, s), "", false
			}
		}
		return bfUnknown{"unary " + x.Op.String()}, "", false
	case *ssa.Convert:
		a := m.value(fr, x.X)
		if i, ok := a.(bfInt); ok {
			if w, s, ok := bfWidth(x.Type()); ok {
				return i.trunc(w, s), "", false
			}
		}
		if str, ok := a.(bfStr); ok && isByteSlice(x.Type()) {
			obj := m.newArray(heap, len(str.s))
			for i := 0; i < len(str.s); i++ {
				heap[obj][i] = bfConst(uint64(str.s[i]), 8, false)
			}
			return bfSlice{obj: obj, lo: 0, hi: len(str.s), cp: len(str.s)}, "", false
		}
		return bfUnknown{"conversion to " + x.Type().String()}, "", false
	case *ssa.ChangeType:
		return m.value(fr, x.X), "", false
	case *ssa.MakeInterface:
		a := m.value(fr, x.X)
		if _, isErr := a.(bfErr); isErr {
			return a, "", false
		}
		if types.Implements(x.X.Type(), types.Universe.Lookup("error").Type().Underlying().(*types.Interface)) && types.Identical(x.Type(), types.Universe.Lookup("error").Type()) {
			return bfErr{true}, "", false
		}
		return bfUnknown{"interface value"}, "", false
	case *ssa.Extract:
		if t, ok := m.value(fr, x.Tuple).(bfTuple); ok && x.Index < len(t) {
			return t[x.Index], "", false
		}
		if w, s, ok := bfWidth(x.Type()); ok {
			return bfUnknownInt(w, s), "", false
		}
		return bfUnknown{"component of an unmodelled tuple"}, "", false
	case *ssa.MakeClosure:
		fn, ok := x.Fn.(*ssa.Function)
		if !ok {
			return bfUnknown{"closure over an unknown function"}, "", false
		}
		bind := make([]any, len(x.Bindings))
		for i, b := range x.Bindings {
			bind[i] = m.value(fr, b)
		}
		return bfClosure{fn: fn, bind: bind}, "", false
	case *ssa.Alloc:
		if at, ok := x.Type().Underlying().(*types.Pointer).Elem().Underlying().(*types.Array); ok {
			_, isPtrElem := at.Elem().Underlying().(*types.Pointer)
			if _, _, isInt := bfWidth(at.Elem()); (isInt || isPtrElem) && at.Len() <= 1<<16 {
				return bfPtr{obj: m.newArray(heap, int(at.Len())), field: -1}, "", false
			}
		}
		m.nextObj++
		return bfPtr{obj: m.nextObj, field: -1}, "", false
	case *ssa.FieldAddr:
		if p, ok := m.value(fr, x.X).(bfPtr); ok && p.obj >= 0 && p.field == -1 {
			return bfPtr{obj: p.obj, field: x.Field}, "", false
		}
		return bfUnknown{"field of an unmodelled object"}, "", false
	case *ssa.IndexAddr:
		idx, ok := m.value(fr, x.Index).(bfInt)
		var sl bfSlice
		switch base := m.value(fr, x.X).(type) {
		case bfSlice:
			sl = base
		case bfPtr: // pointer to an array object
			if g, isG := x.X.(*ssa.Global); isG && base.obj < 0 {
				// element of a package-level table that only its initialiser writes: a read-only copy
				if es := globalArrayLiteral(g); es != nil {
					obj := m.newArray(heap, len(es))
					for k, e := range es {
						heap[obj][k] = m.value(fr, e)
					}
					sl = bfSlice{obj: obj, lo: 0, hi: len(es), cp: len(es)}
					break
				}
			}
			if base.obj < 0 || base.field != -1 {
				return bfUnknown{"element of an unmodelled sequence"}, "", false
			}
			if _, has := heap[base.obj][bfLenKey]; !has {
				return bfUnknown{"element of an unmodelled sequence"}, "", false
			}
			n := bfArrayLen(heap, base.obj)
			sl = bfSlice{obj: base.obj, lo: 0, hi: n, cp: n}
		default:
			return bfUnknown{"element of an unmodelled sequence"}, "", false
		}
		c, conc := idx.concrete()
		if !ok || !conc {
			return nil, fmt.Sprintf("index %s is not determined by the partition", exprStr(x.Index, exprOpts{})), false
		}
		i := idx.sval(c)
		if i < 0 || i >= int64(sl.hi-sl.lo) {
			return nil, fmt.Sprintf("index out of range [%d] with length %d", i, sl.hi-sl.lo), true
		}
		return bfPtr{obj: sl.obj, field: sl.lo + int(i)}, "", false
	case *ssa.Slice:
		var sl bfSlice
		switch base := m.value(fr, x.X).(type) {
		case bfSlice:
			sl = base
		case bfPtr:
			if base.obj < 0 || base.field != -1 {
				return bfUnknown{"slice of an unmodelled sequence"}, "", false
			}
			if _, has := heap[base.obj][bfLenKey]; !has {
				return bfUnknown{"slice of an unmodelled sequence"}, "", false
			}
			n := bfArrayLen(heap, base.obj)
			sl = bfSlice{obj: base.obj, lo: 0, hi: n, cp: n}
		default:
			return bfUnknown{"slice of an unmodelled sequence"}, "", false
		}
		get := func(v ssa.Value, def int64) (int64, bool) {
			if v == nil {
				return def, true
			}
			i, ok := m.value(fr, v).(bfInt)
			if !ok {
				return 0, false
			}
			c, conc := i.concrete()
			return i.sval(c), conc
		}
		capacity := int64(sl.cp - sl.lo)
		lo, ok1 := get(x.Low, 0)
		hi, ok2 := get(x.High, int64(sl.hi-sl.lo))
		mx, ok3 := get(x.Max, capacity)
		if !ok1 || !ok2 || !ok3 {
			return nil, "slice bounds are not determined by the partition", false
		}
		if lo < 0 || hi < lo || mx < hi || mx > capacity {
			return nil, fmt.Sprintf("slice bounds out of range [%d:%d] with capacity %d", lo, hi, capacity), true
		}
		return bfSlice{obj: sl.obj, lo: sl.lo + int(lo), hi: sl.lo + int(hi), cp: sl.lo + int(mx)}, "", false
	case *ssa.MakeSlice:
		ln, ok1 := m.value(fr, x.Len).(bfInt)
		cp, ok2 := m.value(fr, x.Cap).(bfInt)
		l, c1 := ln.concrete()
		k, c2 := cp.concrete()
		if !ok1 || !ok2 || !c1 || !c2 || k > 1<<16 || l > k {
			return bfUnknown{"make with a size the partition does not determine"}, "", false
		}
		if !isByteSlice(x.Type()) {
			st, _ := x.Type().Underlying().(*types.Slice)
			_, isPtr := st.Elem().Underlying().(*types.Pointer)
			if _, _, isInt := bfWidth(st.Elem()); !isPtr && !isInt {
				return bfUnknown{"make of a slice of unmodelled elements"}, "", false
			}
		}
		obj := m.newArray(heap, int(k))
		return bfSlice{obj: obj, lo: 0, hi: int(l), cp: int(k)}, "", false
	case *ssa.Index:
		if av, isArr := m.value(fr, x.X).(bfArr); isArr {
			idx, ok := m.value(fr, x.Index).(bfInt)
			k, conc := idx.concrete()
			if !ok || !conc {
				return nil, "index of an array value is not determined by the partition", false
			}
			if int64(k) < 0 || int(k) >= av.n {
				return nil, fmt.Sprintf("index out of range [%d] with length %d", k, av.n), true
			}
			if v, has := av.el[int(k)]; has {
				return v, "", false
			}
			if w, s, ok := bfWidth(x.Type()); ok {
				return bfConst(0, w, s), "", false
			}
		}
		return bfUnknown{"element of an unmodelled array value"}, "", false
	case *ssa.Field:
		return bfUnknown{"field of a struct value"}, "", false
	}
	if w, s, ok := bfWidth(v.Type()); ok {
		return bfUnknownInt(w, s), "", false
	}
	return bfUnknown{fmt.Sprintf("%T", v)}, "", false
}

func (m *bfMachine) doCall(fr *bfFrame, heap bfHeap, x *ssa.Call, depth int) []bfOutcome {
	one := func(v any) []bfOutcome { return []bfOutcome{{results: []any{v}, heap: heap}} }
	unknownResult := func() []bfOutcome {
		n := 1
		if t, ok := x.Type().(*types.Tuple); ok {
			n = t.Len()
		}
		res := make([]any, n)
		for i := range res {
			var t types.Type = x.Type()
			if tt, ok := x.Type().(*types.Tuple); ok {
				t = tt.At(i).Type()
			}
			if w, s, ok := bfWidth(t); ok {
				res[i] = bfUnknownInt(w, s)
			} else {
				res[i] = bfUnknown{"result of " + exprStr(x, exprOpts{})}
			}
		}
		return []bfOutcome{{results: res, heap: heap}}
	}
	args := make([]any, len(x.Call.Args))
	for i, a := range x.Call.Args {
		args[i] = m.value(fr, a)
	}
	if b, ok := x.Call.Value.(*ssa.Builtin); ok {
		switch b.Name() {
		case "len", "cap":
			if sl, ok := args[0].(bfSlice); ok {
				if b.Name() == "cap" {
					return one(bfConst(uint64(sl.cp-sl.lo), 64, true))
				}
				return one(bfConst(uint64(sl.hi-sl.lo), 64, true))
			}
		case "append":
			dst, ok1 := args[0].(bfSlice)
			src, ok2 := args[1].(bfSlice)
			if str, isStr := args[1].(bfStr); isStr && ok1 {
				// append(bytes, "literal"...)
				obj := m.newArray(heap, len(str.s))
				for i := 0; i < len(str.s); i++ {
					heap[obj][i] = bfConst(uint64(str.s[i]), 8, false)
				}
				src, ok2 = bfSlice{obj: obj, lo: 0, hi: len(str.s), cp: len(str.s)}, true
			}
			if !ok1 || !ok2 {
				break
			}
			n, k := dst.hi-dst.lo, src.hi-src.lo
			out := dst
			if dst.obj == 0 || dst.hi+k > dst.cp {
				// grows: a fresh backing array (capacity rounded up as the runtime may)
				obj := m.newArray(heap, n+k)
				for i := 0; i < n; i++ {
					if v := rawElem(heap, dst.obj, dst.lo+i); v != nil {
						heap[obj][i] = v
					}
				}
				out = bfSlice{obj: obj, lo: 0, hi: n, cp: n + k}
			}
			vals := make([]any, k)
			for i := 0; i < k; i++ {
				vals[i] = rawElem(heap, src.obj, src.lo+i)
			}
			for i := 0; i < k; i++ {
				if vals[i] == nil {
					delete(heap[out.obj], out.hi+i)
				} else {
					heap[out.obj][out.hi+i] = vals[i]
				}
			}
			out.hi += k
			return one(out)
		case "copy":
			dst, ok1 := args[0].(bfSlice)
			src, ok2 := args[1].(bfSlice)
			if !ok1 || !ok2 {
				break
			}
			k := min(dst.hi-dst.lo, src.hi-src.lo)
			vals := make([]any, k)
			for i := 0; i < k; i++ {
				vals[i] = rawElem(heap, src.obj, src.lo+i)
			}
			for i := 0; i < k && dst.obj != 0; i++ {
				if vals[i] == nil {
					delete(heap[dst.obj], dst.lo+i)
				} else {
					heap[dst.obj][dst.lo+i] = vals[i]
				}
			}
			return one(bfConst(uint64(k), 64, true))
		case "min", "max":
			if a, ok := args[0].(bfInt); ok && len(args) == 2 {
				if bb, ok := args[1].(bfInt); ok {
					lt, isInt := m.binop(token.LSS, a, bb, types.Typ[types.Bool]).(bfInt)
					if c, conc := lt.concrete(); isInt && conc {
						if (c != 0) == (b.Name() == "min") {
							return one(a)
						}
						return one(bb)
					}
				}
			}
		}
		return unknownResult()
	}
	callee := x.Call.StaticCallee()
	if callee == nil {
		// a function value: a closure made here, or a standard slice iterator driven with a closure (range over func)
		switch fv := m.value(fr, x.Call.Value).(type) {
		case bfClosure:
			if bfIsModuleFunc(fv.fn) || fv.fn.Synthetic != "" && len(fv.fn.Blocks) > 0 {
				return m.callClosure(fv, args, heap, depth+1)
			}
		case bfIter:
			if clo, ok := args[0].(bfClosure); ok && len(args) == 1 && len(clo.fn.Blocks) > 0 {
				return m.iterate(fv, clo, heap, depth+1)
			}
		case bfOpaqueFn:
			if m.hook != nil {
				if v, ok := m.hook(nil, args, heap); ok {
					return one(v)
				}
			}
		}
		return unknownResult()
	}
	if m.hook != nil {
		if v, ok := m.hook(callee, args, heap); ok {
			return one(v)
		}
	}
	full := callee.String()
	if o := callee.Origin(); o != nil {
		full = o.String()
	}
	switch full {
	case "slices.All", "slices.Backward", "slices.Values":
		if sl, ok := args[0].(bfSlice); ok && len(args) == 1 {
			return one(bfIter{kind: strings.TrimPrefix(full, "slices."), sl: sl})
		}
	}
	full = callee.String()
	switch {
	case full == "errors.New" || full == "fmt.Errorf":
		return one(bfErr{true})
	case strings.HasPrefix(full, "math/bits."):
		if a, ok := args[0].(bfInt); ok {
			if _, conc := a.concrete(); !conc && strings.HasPrefix(callee.Name(), "Len") || !conc && strings.HasPrefix(callee.Name(), "LeadingZeros") {
				// the position of the highest set bit is known when the highest bit that can be set is the constant 1
				top := -1
				for i := int(a.w) - 1; i >= 0; i-- {
					if a.b[i].k != 0 {
						top = i
						break
					}
				}
				if top >= 0 && a.b[top].k == 1 {
					w, s, _ := bfWidth(x.Type())
					width := map[string]int{"Len": 64, "Len8": 8, "Len16": 16, "Len32": 32, "Len64": 64, "LeadingZeros8": 8, "LeadingZeros16": 16, "LeadingZeros32": 32, "LeadingZeros64": 64}[callee.Name()]
					if width > 0 && strings.HasPrefix(callee.Name(), "Len") {
						return one(bfConst(uint64(top+1), w, s))
					}
					if width > 0 {
						return one(bfConst(uint64(width-top-1), w, s))
					}
				}
			}
			if c, conc := a.concrete(); conc {
				w, s, _ := bfWidth(x.Type())
				switch callee.Name() {
				case "LeadingZeros8":
					return one(bfConst(uint64(bits.LeadingZeros8(uint8(c))), w, s))
				case "LeadingZeros16":
					return one(bfConst(uint64(bits.LeadingZeros16(uint16(c))), w, s))
				case "LeadingZeros32":
					return one(bfConst(uint64(bits.LeadingZeros32(uint32(c))), w, s))
				case "LeadingZeros64":
					return one(bfConst(uint64(bits.LeadingZeros64(c)), w, s))
				case "TrailingZeros8":
					return one(bfConst(uint64(bits.TrailingZeros8(uint8(c))), w, s))
				case "TrailingZeros64":
					return one(bfConst(uint64(bits.TrailingZeros64(c)), w, s))
				case "Len8":
					return one(bfConst(uint64(bits.Len8(uint8(c))), w, s))
				case "Len64":
					return one(bfConst(uint64(bits.Len64(c)), w, s))
				case "OnesCount8":
					return one(bfConst(uint64(bits.OnesCount8(uint8(c))), w, s))
				}
			}
		}
		return unknownResult()
	case strings.HasPrefix(full, "(encoding/binary.littleEndian).") || strings.HasPrefix(full, "(encoding/binary.bigEndian)."):
		name := callee.Name()
		if strings.HasPrefix(name, "Append") {
			nb := map[string]int{"AppendUint16": 2, "AppendUint32": 4, "AppendUint64": 8}[name]
			dst, ok1 := args[1].(bfSlice)
			v, ok2 := args[2].(bfInt)
			if nb == 0 || !ok1 || !ok2 {
				return unknownResult()
			}
			n := dst.hi - dst.lo
			out := dst
			if dst.obj == 0 || dst.hi+nb > dst.cp {
				obj := m.newArray(heap, n+nb)
				for i := 0; i < n; i++ {
					heap[obj][i] = bfElem(heap, dst.obj, dst.lo+i)
				}
				out = bfSlice{obj: obj, lo: 0, hi: n, cp: n + nb}
			}
			for k := 0; k < nb; k++ {
				pos := k
				if strings.Contains(full, "bigEndian") {
					pos = nb - 1 - k
				}
				el := bfInt{w: 8}
				for j := 0; j < 8; j++ {
					el.b[j] = v.b[8*pos+j]
				}
				heap[out.obj][out.hi+k] = el
			}
			out.hi += nb
			return one(out)
		}
		put := strings.HasPrefix(name, "Put")
		nb := map[string]int{"Uint16": 2, "Uint32": 4, "Uint64": 8}[strings.TrimPrefix(name, "Put")]
		if nb == 0 || len(args) < 2 {
			return unknownResult()
		}
		sl, ok := args[1].(bfSlice)
		if !ok {
			return unknownResult()
		}
		if sl.hi-sl.lo < nb {
			return []bfOutcome{{heap: heap, fault: fmt.Sprintf("%s on %d bytes: index out of range", name, sl.hi-sl.lo), panics: true}}
		}
		big := strings.Contains(full, "bigEndian")
		if put {
			v, isInt := args[2].(bfInt)
			if !isInt {
				return unknownResult()
			}
			for k := 0; k < nb; k++ {
				pos := k
				if big {
					pos = nb - 1 - k
				}
				el := bfInt{w: 8}
				for j := 0; j < 8; j++ {
					el.b[j] = v.b[8*pos+j]
				}
				heap[sl.obj][sl.lo+k] = el
			}
			return []bfOutcome{{heap: heap}}
		}
		out := bfInt{w: uint8(8 * nb)}
		for k := 0; k < nb; k++ {
			el := bfElem(heap, sl.obj, sl.lo+k)
			pos := k
			if big {
				pos = nb - 1 - k
			}
			for j := 0; j < 8; j++ {
				out.b[8*pos+j] = el.b[j]
			}
		}
		return one(out)
	}
	if !bfIsModuleFunc(callee) || depth > 5 {
		return unknownResult()
	}
	// module helpers are followed when they can see modelled data; loggers and the like are not
	relevant := false
	for _, a := range args {
		switch v := a.(type) {
		case bfArr:
			relevant = true
		case bfSlice:
			relevant = relevant || v.obj != 0
		case bfPtr:
			if v.obj >= 0 {
				relevant = true
			}
		case bfInt:
			relevant = relevant || callee.Signature.Results().Len() > 0
		}
	}
	if !relevant {
		return unknownResult()
	}
	outs := m.call(callee, args, heap, depth+1)
	return outs
}

// bfConstResultLen: every return of the module function h yields, as its first result, a byte slice of one and the
// same length, whatever the (unknown) arguments.
func bfConstResultLen(h *ssa.Function) (int, bool) {
	if !bfIsModuleFunc(h) || h.Signature.Results().Len() < 1 || !isByteSlice(h.Signature.Results().At(0).Type()) {
		return 0, false
	}
	m := &bfMachine{maxSteps: 20000}
	args := make([]any, len(h.Params))
	for i, p := range h.Params {
		if w, s, ok := bfWidth(p.Type()); ok {
			args[i] = bfUnknownInt(w, s)
		} else if at, isArr := p.Type().Underlying().(*types.Array); isArr {
			el := map[int]any{}
			if w, s, ok := bfWidth(at.Elem()); ok {
				for k := 0; k < int(at.Len()) && k < 1<<12; k++ {
					el[k] = bfUnknownInt(w, s)
				}
			}
			args[i] = bfArr{n: int(at.Len()), el: el}
		} else {
			args[i] = bfUnknown{"parameter"}
		}
	}
	n := -1
	for _, o := range m.call(h, args, bfHeap{}, 0) {
		if o.fault != "" || len(o.results) == 0 {
			return 0, false
		}
		sl, ok := o.results[0].(bfSlice)
		if !ok || n >= 0 && n != sl.hi-sl.lo {
			return 0, false
		}
		n = sl.hi - sl.lo
	}
	return n, n >= 0
}

// bfBlockCodec decides a helper that converts between a block of 8·(1+k) bytes and (one 64-bit value, an array of
// k 64-bit values): encode = E8(g) ++ E8(w_0) ++ … ++ E8(w_{k-1}), decode = its inverse. Input bit 8b+j is bit j of
// block byte b, i.e. bit 64i+j' of the i-th 64-bit quantity.
func bfBlockCodec(h *ssa.Function, encode bool) (ok bool, why string) {
	if !bfIsModuleFunc(h) {
		return false, "not a module function with a body"
	}
	word := func(i int) bfInt {
		v := bfInt{w: 64}
		for j := 0; j < 64; j++ {
			v.b[j] = bfBit{k: 2, i: uint16(64*i + j)}
		}
		return v
	}
	m := &bfMachine{maxSteps: 40000}
	heap := bfHeap{}
	args := make([]any, len(h.Params))
	k := -1
	if encode {
		gi, wi := -1, -1
		for i, p := range h.Params {
			if w, s, isInt := bfWidth(p.Type()); isInt && w == 64 && !s {
				gi = i
			} else if at, isArr := p.Type().Underlying().(*types.Array); isArr {
				wi, k = i, int(at.Len())
			}
		}
		if gi < 0 || wi < 0 || len(h.Params) != 2 {
			return false, "parameters are not (64-bit value, array of 64-bit values)"
		}
		args[gi] = word(0)
		el := map[int]any{}
		for i := 0; i < k; i++ {
			el[i] = word(1 + i)
		}
		args[wi] = bfArr{n: k, el: el}
	} else {
		if len(h.Params) != 1 || !isByteSlice(h.Params[0].Type()) {
			return false, "parameter is not one byte slice"
		}
		res := h.Signature.Results()
		for i := 0; i < res.Len(); i++ {
			if at, isArr := res.At(i).Type().Underlying().(*types.Array); isArr {
				k = int(at.Len())
			}
		}
		if k < 0 {
			return false, "no array result"
		}
		n := 8 * (1 + k)
		arr := m.newArray(heap, n)
		for b := 0; b < n; b++ {
			v := bfInt{w: 8}
			for j := 0; j < 8; j++ {
				v.b[j] = bfBit{k: 2, i: uint16(8*b + j)}
			}
			heap[arr][b] = v
		}
		args[0] = bfSlice{obj: arr, lo: 0, hi: n, cp: n}
	}
	outs := m.call(h, args, heap, 0)
	if len(outs) == 0 {
		return false, "no return reached"
	}
	for _, o := range outs {
		if o.fault != "" {
			return false, o.fault
		}
		if encode {
			sl, isSl := o.results[0].(bfSlice)
			if !isSl || sl.hi-sl.lo != 8*(1+k) {
				return false, fmt.Sprintf("the block has %d bytes, expected %d", sl.hi-sl.lo, 8*(1+k))
			}
			for b := 0; b < 8*(1+k); b++ {
				el := bfElem(o.heap, sl.obj, sl.lo+b)
				for j := 0; j < 8; j++ {
					if el.b[j] != (bfBit{k: 2, i: uint16(8*b + j)}) {
						return false, fmt.Sprintf("bit %d of block byte %d is %s", j, b, bfBitString(el.b[j]))
					}
				}
			}
			continue
		}
		var g bfInt
		var w bfArr
		haveG, haveW := false, false
		for _, r := range o.results {
			switch x := r.(type) {
			case bfInt:
				if x.w == 64 {
					g, haveG = x, true
				}
			case bfArr:
				w, haveW = x, true
			}
		}
		if !haveG || !haveW {
			return false, "results are not (64-bit value, array)"
		}
		if g.b != word(0).b {
			return false, "the 64-bit result is not E8^-1 of block bytes 0..7: " + g.String()
		}
		for i := 0; i < k; i++ {
			e, _ := w.el[i].(bfInt)
			if e.b != word(1+i).b {
				return false, fmt.Sprintf("element %d of the array result is not E8^-1 of block bytes %d..%d: %s", i, 8*(1+i), 8*(1+i)+7, e)
			}
		}
	}
	return true, ""
}
