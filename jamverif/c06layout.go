package main

import (
	"fmt"
	"go/types"
	"sort"
	"strings"

	"golang.org/x/tools/go/ssa"
)

// c06LayoutByEvaluation decides the memory map of SingleInitializer (GP A.37–A.40) numerically: the function is
// followed from its entry with |o|, |w|, z, s and |a| valued (the tests and every argument evaluated as integer
// expressions of those values, helpers that receive the memory followed with their parameters bound), and what
// is observed on the way — every allocateMemorySegment / allocateStack call with its evaluated range, the content
// it is given (o, w, a or nil, traced through helper parameters) and its access, every store into the register
// file, and the heap bounds of the returned memory — is compared with the layout computed from the formulas.
// The written form (temporaries, a zone helper, hoisted lengths, a composite register literal) does not matter.
func c06LayoutByEvaluation(c *Ctx, f *ssa.Function) {
	const rule = "C06.layout"
	const ZZ, ZI, ZP = int64(1) << 16, int64(1) << 24, int64(1) << 12
	P := func(x int64) int64 { return ZP * ((x + ZP - 1) / ZP) }
	Z := func(x int64) int64 { return ZZ * ((x + ZZ - 1) / ZZ) }
	dec := c.Fn("PVM", "DecodeSerializedValues")
	segF, stackF := c.Fn("PVM", "allocateMemorySegment"), c.Fn("PVM", "allocateStack")
	if dec == nil || segF == nil || stackF == nil || len(f.Params) < 2 {
		return
	}
	decIdx := func(v ssa.Value) int {
		ex, ok := stripConv(v).(*ssa.Extract)
		if !ok {
			return -1
		}
		call, ok := ex.Tuple.(*ssa.Call)
		if !ok || call.Call.StaticCallee() != dec {
			return -1
		}
		return ex.Index
	}
	takesMemory := func(g *ssa.Function) bool {
		for _, p := range g.Params {
			if strings.HasSuffix(types.TypeString(derefType(p.Type()), nil), "PVM.Memory") {
				return true
			}
		}
		return false
	}
	type seg struct {
		start, end, access int64
		content            string
		order              int
	}
	type row struct {
		o, w, z, s, a int64
		fail          bool
	}
	rows := []row{
		{0, 0, 0, 0, 0, false}, {1, 1, 1, 1, 1, false}, {4096, 4096, 0, 4096, 4096, false}, {4097, 100, 3, 10000, 7, false},
		{5000, 8193, 65535, 1, 9000, false}, {65536, 0, 2, 4095, 0, false}, {65537, 12288, 16, 8192, 4095, false},
		{70000, 70000, 100, 65536, 70000, false}, {0, 5, 0, 0, 4097, false}, {12288, 1, 1, 12289, 12288, false},
		{131072, 4095, 7, 1 << 20, 1 << 16, false}, {3, 3, 3, 3, 3, true},
	}
	for _, r := range rows {
		key := fmt.Sprintf("PVM.SingleInitializer · |o|=%d |w|=%d z=%d s=%d |a|=%d", r.o, r.w, r.z, r.s, r.a)
		if r.fail {
			key = "PVM.SingleInitializer · undecodable blob"
		}
		var segs []seg
		var stacks [][2]int64
		regs := map[int64]int64{}
		label := map[ssa.Value]string{f.Params[1]: "a"}
		lens := map[ssa.Value]int64{f.Params[1]: r.a}
		undecided := ""
		var retExit, heapPtr, heapLim int64 = -1, -1, -1
		sawRet := false
		allInstrs(f, func(in ssa.Instruction) {
			if v, ok := in.(ssa.Value); ok {
				switch decIdx(v) {
				case 1:
					lens[v], label[v] = r.o, "o"
				case 2:
					lens[v], label[v] = r.w, "w"
				}
			}
		})
		opaque := func(v ssa.Value) (int64, bool) {
			switch decIdx(v) {
			case 3:
				return r.z, true
			case 4:
				return r.s, true
			}
			if b, ok := v.(*ssa.BinOp); ok {
				// err != nil / err == nil on the decoder's error
				for _, pair := range [][2]ssa.Value{{b.X, b.Y}, {b.Y, b.X}} {
					if decIdx(pair[0]) == 5 {
						if k, isC := pair[1].(*ssa.Const); isC && k.Value == nil {
							isErr := r.fail
							if b.Op.String() == "!=" {
								return b2i(isErr), true
							}
							if b.Op.String() == "==" {
								return b2i(!isErr), true
							}
						}
					}
				}
			}
			return 0, false
		}
		labelOf := func(v ssa.Value) string {
			v = stripConv(v)
			if k, ok := v.(*ssa.Const); ok && k.Value == nil {
				return "nil"
			}
			if l, ok := label[v]; ok {
				return l
			}
			if l, ok := label[resolveLocal(v)]; ok {
				return l
			}
			return "?" + exprStr(v, shapeOpts)
		}
		fuel := 20000
		order := 0
		var watch func(depth int) func(ssa.Instruction, intEnv)
		watch = func(depth int) func(ssa.Instruction, intEnv) {
			return func(in ssa.Instruction, en intEnv) {
				ev := func(v ssa.Value) int64 {
					k, ok := evalInt(v, en, 0)
					if !ok && undecided == "" {
						undecided = "cannot evaluate " + exprStr(v, shapeOpts)
					}
					return k
				}
				switch x := in.(type) {
				case *ssa.Call:
					g := x.Call.StaticCallee()
					if g == nil {
						return
					}
					a := x.Call.Args
					switch {
					case g == segF && len(a) == 5:
						order++
						segs = append(segs, seg{start: ev(a[1]), end: ev(a[2]), content: labelOf(a[3]), access: ev(a[4]), order: order})
					case g == stackF && len(a) == 3:
						stacks = append(stacks, [2]int64{ev(a[1]), ev(a[2])})
					case len(g.Blocks) > 0 && inModule(g) && takesMemory(g) && depth < 3:
						sub := intEnv{lens: lens, params: map[ssa.Value]int64{}, unknown: map[ssa.Value]bool{}, opaque: en.opaque, fuel: en.fuel}
						for i, p := range g.Params {
							if i >= len(a) {
								break
							}
							switch {
							case isIntegerT(p.Type()) || isBoolT(p.Type()):
								sub.params[p] = ev(a[i])
							case isByteSlice(p.Type()):
								label[p] = labelOf(a[i])
								if n, ok := lenOfValue(stripConv(a[i]), en, 0); ok {
									lens[p] = n
								} else if label[p] == "nil" {
									lens[p] = 0
								} else if undecided == "" {
									undecided = "length of " + exprStr(a[i], shapeOpts) + " unknown"
								}
							}
						}
						sub.watch = watch(depth + 1)
						if walkBlocks(g.Blocks[0], nil, sub, func(*ssa.BasicBlock) bool { return false }) == nil && undecided == "" {
							undecided = "helper " + g.Name() + " cannot be followed"
						}
					}
				case *ssa.Store:
					if ia, ok := x.Addr.(*ssa.IndexAddr); ok && depth == 0 {
						if _, isAlloc := ia.X.(*ssa.Alloc); isAlloc && strings.HasSuffix(types.TypeString(derefType(ia.X.Type()), nil), "PVM.Registers") {
							regs[ev(ia.Index)] = ev(x.Val)
						}
					}
				case *ssa.Return:
					if depth != 0 {
						return
					}
					res := retResults(x)
					if len(res) != 4 {
						return
					}
					sawRet = true
					retExit = ev(res[3])
					if !r.fail {
						fl := structLiteralFields(res[2])
						if v := fl["heapPointer"]; v != nil {
							heapPtr = ev(v)
						}
						if v := fl["heapLimit"]; v != nil {
							heapLim = ev(v)
						}
					}
				}
			}
		}
		env := intEnv{lens: lens, params: map[ssa.Value]int64{}, unknown: map[ssa.Value]bool{}, opaque: opaque, fuel: &fuel}
		env.watch = watch(0)
		if walkBlocks(f.Blocks[0], nil, env, func(*ssa.BasicBlock) bool { return false }) == nil && undecided == "" {
			undecided = "the function cannot be followed under this valuation"
		}
		if undecided != "" || !sawRet {
			c.Bad(rule, key, f.Pos(), "layout not decided: %s", undecided)
			continue
		}
		if r.fail {
			okF := retExit != 0 && len(segs) == 0 && len(stacks) == 0
			c.Check(okF, rule, key, f.Pos(), "decode failure: no memory mapped, exit reason is not CONTINUE", fmt.Sprintf("on a decode failure the initializer returns exit %d after %d segment calls", retExit, len(segs)))
			continue
		}
		rwS := 2*ZZ + Z(r.o)
		stE := int64(1)<<32 - 2*ZZ - ZI
		arS := int64(1)<<32 - ZZ - ZI
		want := []seg{
			{start: ZZ, end: ZZ + r.o, content: "o", access: 1}, {start: ZZ + r.o, end: ZZ + P(r.o), content: "nil", access: 1},
			{start: rwS, end: rwS + r.w, content: "w", access: 2}, {start: rwS + r.w, end: rwS + P(r.w) + r.z*ZP, content: "nil", access: 2},
			{start: arS, end: arS + r.a, content: "a", access: 1}, {start: arS + r.a, end: arS + P(r.a), content: "nil", access: 1},
		}
		str := func(s seg) string { return fmt.Sprintf("[%#x,%#x) %s access %d", s.start, s.end, s.content, s.access) }
		set := func(in []seg) []string {
			var out []string
			for _, s := range in {
				if s.start != s.end {
					out = append(out, str(s))
				}
			}
			sort.Strings(out)
			return out
		}
		var bad []string
		if g, w := strings.Join(set(segs), "; "), strings.Join(set(want), "; "); g != w {
			bad = append(bad, "segments mapped: "+g+" — the layout requires: "+w)
		}
		// content before the padding that must not overwrite it: a nil segment starting where a content segment ends comes later
		for _, p := range segs {
			for _, q := range segs {
				if p.content == "nil" && q.content != "nil" && q.start != q.end && p.start == q.end && p.order < q.order {
					bad = append(bad, "padding of "+str(q)+" is mapped before the content")
				}
			}
		}
		if len(stacks) != 1 || stacks[0] != [2]int64{stE - P(r.s), stE} {
			bad = append(bad, fmt.Sprintf("stack %x, required [%#x,%#x)", stacks, stE-P(r.s), stE))
		}
		wantRegs := map[int64]int64{0: int64(1)<<32 - int64(1)<<16, 1: stE, 7: arS, 8: r.a}
		for k, v := range wantRegs {
			if regs[k] != v {
				bad = append(bad, fmt.Sprintf("ω%d = %#x, required %#x", k, regs[k], v))
			}
		}
		for k, v := range regs {
			if _, ok := wantRegs[k]; !ok && v != 0 {
				bad = append(bad, fmt.Sprintf("ω%d = %#x, required 0", k, v))
			}
		}
		if heapPtr != rwS+P(r.w)+r.z*ZP || heapLim != stE-P(r.s) {
			bad = append(bad, fmt.Sprintf("heap [%#x,%#x), required [%#x,%#x)", heapPtr, heapLim, rwS+P(r.w)+r.z*ZP, stE-P(r.s)))
		}
		if retExit != 0 {
			bad = append(bad, fmt.Sprintf("exit reason %d, required CONTINUE", retExit))
		}
		sort.Strings(bad)
		c.Check(len(bad) == 0, rule, key, f.Pos(), "segments, stack, registers and heap bounds equal A.37–A.40", strings.Join(bad, " | "))
	}
	// P and Z by evaluation
	for _, h := range []struct {
		name string
		fn   func(int64) int64
	}{{"P", P}, {"Z", Z}} {
		g := c.Fn("PVM", h.name)
		if g == nil || len(g.Params) != 1 {
			continue
		}
		bad := ""
		for _, x := range []int64{0, 1, 2, 4095, 4096, 4097, 8191, 8192, 65535, 65536, 65537, 131071, 131072, 1 << 20, 1<<24 + 1, 1<<31 - 1} {
			env := intEnv{lens: map[ssa.Value]int64{}, params: map[ssa.Value]int64{g.Params[0]: x}, unknown: map[ssa.Value]bool{}}
			res, ok := runFunc(g, env)
			if !ok || len(res) != 1 {
				bad = fmt.Sprintf("%s(%d) cannot be evaluated", h.name, x)
				break
			}
			if res[0] != h.fn(x) {
				bad = fmt.Sprintf("%s(%d) = %d, required %d", h.name, x, res[0], h.fn(x))
				break
			}
		}
		c.Check(bad == "", rule, "PVM."+h.name, g.Pos(), "rounds up to the next multiple (evaluated on 16 boundary values)", bad)
	}
}

func b2i(b bool) int64 {
	if b {
		return 1
	}
	return 0
}
