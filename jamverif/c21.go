package main

import (
	"fmt"
	"go/types"
	"strings"

	"golang.org/x/tools/go/ssa"
)

// requireCall: f calls callee (by name suffix) exactly once per listed
// argument tuple and with nothing else.
func (c *Ctx) requireCall(rule, key string, f *ssa.Function, calleeSuffix string, want []string) {
	var got []string
	for _, fn := range withClosures(f) {
		allInstrs(fn, func(in ssa.Instruction) {
			ci, ok := in.(ssa.CallInstruction)
			if !ok {
				return
			}
			name := ""
			if ci.Common().IsInvoke() {
				name = ci.Common().Method.Name()
			} else if sc := calleeFunc(ci); sc != nil {
				name = relName(sc.String())
			}
			if !strings.HasSuffix(name, calleeSuffix) {
				return
			}
			var as []string
			for _, a := range ci.Common().Args {
				as = append(as, abbr(exprStr(a, shapeOpts)))
			}
			got = append(got, strings.Join(as, " ‖ "))
		})
	}
	ok := len(got) == len(want)
	if ok {
		seen := map[string]int{}
		for _, g := range got {
			seen[g]++
		}
		for _, w := range want {
			if seen[w] == 0 {
				ok = false
			}
			seen[w]--
		}
	}
	c.Check(ok, rule, key+" · "+calleeSuffix, f.Pos(), "called with "+strings.Join(got, " ;; "), fmt.Sprintf("%s is called with [%s]; the specification requires [%s]", calleeSuffix, strings.Join(got, " ;; "), strings.Join(want, " ;; ")))
}

func checkC21(c *Ctx) (string, []string) {
	A := "internal/accumulation."
	get := func(n string) *ssa.Function { return c.Fn(accPkg, n) }
	wbang, wq, hashes, dep, E, Q, P, wstar, uxi, uvt := get("UpdateImmediatelyAccumulateWorkReports"), get("UpdateQueuedWorkReports"), get("GetAccumulatedHashes"), get("GetDependencyFromWorkReport"), get("QueueEditingFunction"), get("AccumulationPriorityQueue"), get("ExtractWorkReportHashes"), get("UpdateAccumulatableWorkReports"), get("updateXi"), get("updateVartheta")
	if len(c.fatal) > 0 {
		return "", nil
	}
	av := "inter.GetAvailableWorkReports(INTER)"

	c.Rule("C21.partition", "W! = the available reports with no prerequisites and no segment-root lookups (GP 12.4); W^Q = E([D(w) | w available with a dependency], ©ξ) (12.5) with ©ξ the union of the prior accumulated history and D(w) = (w, prerequisites ∪ lookup package hashes)", 8)
	c.checkCondSet("C21.partition", A+"UpdateImmediatelyAccumulateWorkReports", wbang, []string{"(* < len(" + av + "))", "(0 == len(" + av + "[*].Context.Prerequisites))", "(0 == len(" + av + "[*].SegmentRootLookup))"})
	c.requireCall("C21.partition", A+"UpdateImmediatelyAccumulateWorkReports", wbang, "SetAccumulatedWorkReports", []string{"INTER ‖ ⊕(make([]types.WorkReport, 0); [" + av + "[*]][:])"})
	c21Both(c, wbang, true)
	c.checkCondSet("C21.partition", A+"UpdateQueuedWorkReports", wq, []string{"(* < len(" + av + "))", "(0 != len(" + av + "[*].Context.Prerequisites))", "(0 != len(" + av + "[*].SegmentRootLookup))"})
	c.requireCall("C21.partition", A+"UpdateQueuedWorkReports", wq, "SetQueuedWorkReports", []string{"INTER ‖ " + A + "QueueEditingFunction(⊕(make([]types.ReadyRecord, 0); [" + A + "GetDependencyFromWorkReport(" + av + "[*])][:]), " + A + "GetAccumulatedHashes())"})
	c21Both(c, wq, false)
	c.checkShapes("C21.partition", A+"GetAccumulatedHashes", hashes, abbrMap(returnShapes(hashes)), map[string][]string{"ret": {"⊕(make([]types.WorkPackageHash, 0); prior.GetXi(PRIOR)[*])"}})
	c.checkShapes("C21.partition", A+"GetDependencyFromWorkReport", dep, abbrMap(returnShapes(dep)), map[string][]string{"ret.Report": {"p0"}})
	c21Deps(c, dep)

	c.Rule("C21.edit", "E(r, x) (12.7): drops every record whose own package hash is in x, keeps the others in order with x's hashes removed from their dependency lists, and never writes through its arguments (the filtered dependency list is a fresh slice, the record is a copy); P extracts the package hashes in order", 7)
	c21Edit(c, E)
	c.checkShapes("C21.edit", A+"ExtractWorkReportHashes", P, abbrMap(returnShapes(P)), map[string][]string{"ret": {"⊕(make([]types.WorkPackageHash, 0); [p0[*].PackageSpec.Hash][:])"}})

	c.Rule("C21.priority", "Q(r) (12.8): g = reports of records with no remaining dependency, in order; empty g ends the recursion; otherwise g ⌢ Q(E(r, P(g))); W* = W! ⌢ Q(E(ϑ[m:] ⌢ ϑ[:m] ⌢ W^Q, P(W!))) with m = block slot mod E (12.10-12.12)", 3)
	g := "⊕(make([]types.WorkReport, 0); [p0[*].Report][:])"
	c.checkCondSet("C21.priority", A+"AccumulationPriorityQueue", Q, []string{"(* < len(p0))", "(0 == len(p0[*].Dependencies))", "(0 == len(" + g + "))"})
	rec := A + "AccumulationPriorityQueue(" + A + "QueueEditingFunction(p0, " + A + "ExtractWorkReportHashes(" + g + ")))"
	c.checkShapes("C21.priority", A+"AccumulationPriorityQueue", Q, abbrMap(returnShapes(Q)), map[string][]string{"ret": {"append(" + g + ", " + rec + ")", "nil"}})
	m := "(int(BLOCK.Header.Slot) % types.EpochLength)"
	comp := "append(⊕(⊕(make([]types.ReadyRecord, 0); prior.GetVartheta(PRIOR)[" + m + ":][*]); prior.GetVartheta(PRIOR)[:" + m + "][*]), inter.GetQueuedWorkReports(INTER))"
	c.requireCall("C21.priority", A+"UpdateAccumulatableWorkReports", wstar, "SetAccumulatableWorkReports", []string{
		"INTER ‖ append(append(make([]types.WorkReport, 0), inter.GetAccumulatedWorkReports(INTER)), " + A + "AccumulationPriorityQueue(" + A + "QueueEditingFunction(" + comp + ", " + A + "ExtractWorkReportHashes(inter.GetAccumulatedWorkReports(INTER)))))",
	})

	c.Rule("C21.history", "ξ'[E−1] = P(W*[:n]) and ξ'[i] = ξ[i+1] (12.31-12.32); ϑ' (12.33): slot m gets E(W^Q, ξ'[E−1]); the slots skipped since the prior block are emptied; every other slot gets E(ϑ[slot], ξ'[E−1]) — both edits remove exactly the hashes accumulated in this block", 6)
	cs := "(*internal/blockchain.ChainState)."
	post := cs + "GetPosteriorStates(p0)"
	pxi := "post.GetXi(" + post + ")"
	wst := "inter.GetAccumulatableWorkReports(" + cs + "GetIntermediateStates(p0))"
	effs := abbrAll(effectShapesOpt(uxi, func(string) bool { return false }, true))
	c.checkEffects("C21.history", A+"updateXi", uxi, effs, []string{
		"store &" + pxi + "[(types.EpochLength - 1)] ← " + A + "ExtractWorkReportHashes(" + wst + "[:p1])",
		"store &" + pxi + "[*] ← prior.GetXi(" + cs + "GetPriorStates(p0))[*]",
	})
	c21Shift(c, uxi)
	c.requireCall("C21.history", A+"updateXi", uxi, "SetXi", []string{post + " ‖ " + pxi})
	pv := "post.GetVartheta(" + post + ")"
	idx := "[(((((int(" + cs + "GetLatestBlock(p0).Header.Slot) % types.EpochLength) - *) + types.EpochLength) % types.EpochLength) % len(" + pv + "))]"
	last := pxi + "[(types.EpochLength - 1)]"
	effs = abbrAll(effectShapesOpt(uvt, func(string) bool { return false }, true))
	c.checkEffects("C21.history", A+"updateVartheta", uvt, effs, []string{
		"store &" + pv + idx + " ← [][:]",
		"store &" + pv + idx + " ← " + A + "QueueEditingFunction(inter.GetQueuedWorkReports(" + cs + "GetIntermediateStates(p0)), " + last + ")",
		"store &" + pv + idx + " ← " + A + "QueueEditingFunction(prior.GetVartheta(" + cs + "GetPriorStates(p0))" + idx + ", " + last + ")",
	})
	c.requireCall("C21.history", A+"updateVartheta", uvt, "SetVartheta", []string{post + " ‖ " + pv})
	c21VarthetaArms(c, uvt)
	_ = types.Typ
	return "Accumulation-queue mechanisms decided statically as provenance of what each step stores: W!, W^Q = E(D(·), ©ξ), E's drop/filter conditions and argument immutability, Q's recursion g ⌢ Q(E(r, P(g))), W* = W! ⌢ Q(E(ϑ[m:] ⌢ ϑ[:m] ⌢ W^Q, P(W!))), ξ' shift with P(W*[:n]) last, and the three arms of ϑ' all edited with ξ'[E−1].",
		[]string{"canonical SSA renderer (Σ/⊕ accumulation forms), GP 12.4-12.12, 12.31-12.33", "not decided: ordering semantics on runtime dependency graphs (cycles, duplicates), the value of n"}
}

// c21Both: the two dependency tests are combined with AND (W!) / OR (W^Q):
// the append is reached only when both hold (W!) / when either holds (W^Q).
func c21Both(c *Ctx, f *ssa.Function, and bool) {
	var app ssa.Instruction
	allInstrs(f, func(in ssa.Instruction) {
		if call, ok := in.(*ssa.Call); ok {
			if b, ok := call.Call.Value.(*ssa.Builtin); ok && b.Name() == "append" {
				app = in
			}
		}
	})
	if app == nil {
		c.Bad("C21.partition", funcKey(f)+" · selection", f.Pos(), "no append found")
		return
	}
	pre := condEdges(f, func(v ssa.Value) (bool, bool) {
		s := abbr(exprStr(v, shapeOpts))
		return strings.HasSuffix(s, ".Context.Prerequisites))"), strings.HasPrefix(s, "(0 == ") == and
	})
	seg := condEdges(f, func(v ssa.Value) (bool, bool) {
		s := abbr(exprStr(v, shapeOpts))
		return strings.HasSuffix(s, ".SegmentRootLookup))"), strings.HasPrefix(s, "(0 == ") == and
	})
	ok := len(pre) == 1 && len(seg) == 1
	if ok {
		if and {
			ok = guardedBy(f, app, pre) && guardedBy(f, app, seg)
		} else {
			// reachable through either passing edge, not reachable when both fail
			ok = !guardedBy(f, app, pre) && !guardedBy(f, app, seg) && guardedBy(f, app, append(append([]edge{}, pre...), seg...))
		}
	}
	msg := "a report is selected only when it has no prerequisite and no segment-root lookup"
	if !and {
		msg = "a report is queued when it has a prerequisite or a segment-root lookup"
	}
	c.Check(ok, "C21.partition", funcKey(f)+" · selection", app.Pos(), msg, "the selection does not combine the two dependency tests as specified ("+msg+")")
}

// c21Deps: D(w) collects prerequisites then lookup package hashes into one fresh list.
func c21Deps(c *Ctx, f *ssa.Function) {
	var elems []string
	fresh := false
	allInstrs(f, func(in ssa.Instruction) {
		switch x := in.(type) {
		case *ssa.Call:
			if b, ok := x.Call.Value.(*ssa.Builtin); ok && b.Name() == "append" {
				elems = append(elems, abbr(exprStr(x.Call.Args[1], shapeOpts)))
			}
		case *ssa.Store:
			if ms, ok := x.Val.(*ssa.MakeSlice); ok && strings.HasSuffix(abbr(exprStr(x.Addr, shapeOpts)), ".Dependencies") {
				_ = ms
				fresh = true
			}
		}
	})
	want := []string{"[p0.Context.Prerequisites[*]][:]", "[p0.SegmentRootLookup[*].WorkPackageHash][:]"}
	c.Check(fresh && len(elems) == 2 && elems[0] == want[0] && elems[1] == want[1], "C21.partition", funcKey(f)+" · dependencies", f.Pos(), "fresh list of prerequisites then lookup package hashes", fmt.Sprintf("dependency list built from %v (fresh=%v), expected %v", elems, fresh, want))
}

func c21Edit(c *Ctx, f *ssa.Function) {
	key := funcKey(f)
	// the lookup set is built from x
	setOK := false
	var set ssa.Value
	allInstrs(f, func(in ssa.Instruction) {
		if mu, ok := in.(*ssa.MapUpdate); ok {
			if _, isMk := mu.Map.(*ssa.MakeMap); isMk && abbr(exprStr(mu.Key, shapeOpts)) == "p1[*]" {
				if k, ok := mu.Value.(*ssa.Const); ok && k.Value != nil && k.Value.String() == "true" {
					setOK, set = true, mu.Map
				}
			}
		}
	})
	c.Check(setOK, "C21.edit", key+" · removal set", f.Pos(), "membership set holds exactly the hashes of x", "the removal set is not built from every element of x")
	_ = set
	// appends
	var resApp, depApp *ssa.Call
	allInstrs(f, func(in ssa.Instruction) {
		call, ok := in.(*ssa.Call)
		if !ok {
			return
		}
		if b, ok := call.Call.Value.(*ssa.Builtin); !ok || b.Name() != "append" {
			return
		}
		switch {
		case strings.HasSuffix(typeStr(call.Type()), "types.ReadyQueueItem") || strings.Contains(typeStr(call.Type()), "ReadyRecord"):
			resApp = call
		case strings.Contains(typeStr(call.Type()), "WorkPackageHash"):
			depApp = call
		}
	})
	if resApp == nil || depApp == nil {
		c.Bad("C21.edit", key+" · structure", f.Pos(), "result append / dependency append not found")
		return
	}
	own := condEdges(f, func(v ssa.Value) (bool, bool) {
		return abbr(exprStr(v, shapeOpts)) == "makemap[cell(p0[*]).Report.PackageSpec.Hash]#1", false
	})
	c.Check(len(own) == 1 && guardedBy(f, resApp, own), "C21.edit", key+" · drops accumulated records", resApp.Pos(), "a record is kept only when its own package hash is not in x", "records whose package hash is in x are not dropped (or the test is on another field)")
	depc := condEdges(f, func(v ssa.Value) (bool, bool) {
		return abbr(exprStr(v, shapeOpts)) == "makemap[cell(p0[*]).Dependencies[*]]#1", false
	})
	c.Check(len(depc) == 1 && guardedBy(f, depApp, depc) && abbr(exprStr(depApp.Call.Args[1], shapeOpts)) == "[cell(p0[*]).Dependencies[*]][:]", "C21.edit", key+" · filters dependencies", depApp.Pos(), "a dependency is kept only when it is not in x", "satisfied dependencies are not removed (or the wrong element is kept)")
	// freshness of the filtered list: the append chain starts at a make
	root := localRoot(depApp.Call.Args[0])
	_, isMake := root.(*ssa.MakeSlice)
	c.Check(isMake, "C21.edit", key+" · fresh dependency list", depApp.Pos(), "filtered dependencies are appended to a slice made in this call", "the filtered dependency list is built in the backing array of the caller's record ("+abbr(exprStr(depApp.Call.Args[0], shapeOpts))+"): stored queue entries are overwritten")
	// no store through parameters
	bad := ""
	allInstrs(f, func(in ssa.Instruction) {
		if st, ok := in.(*ssa.Store); ok && !rootedInLocal(st.Addr) {
			bad = abbr(exprStr(st.Addr, shapeOpts))
		}
	})
	c.Check(bad == "", "C21.edit", key+" · arguments untouched", f.Pos(), "no store outside local storage", "stores through "+bad)
	// the kept record carries the filtered list
	stOK := false
	allInstrs(f, func(in ssa.Instruction) {
		if st, ok := in.(*ssa.Store); ok && strings.HasSuffix(abbr(exprStr(st.Addr, shapeOpts)), ".Dependencies") {
			if localRoot(st.Val) == root {
				stOK = true
			}
		}
	})
	c.Check(stOK, "C21.edit", key+" · record carries filtered list", f.Pos(), "item.Dependencies ← filtered list before the record is appended", "the kept record does not receive the filtered dependency list")
}

// c21Shift: the loop store is ξ'[i] ← ξ[i+1].
func c21Shift(c *Ctx, f *ssa.Function) {
	ok := false
	allInstrs(f, func(in ssa.Instruction) {
		st, isSt := in.(*ssa.Store)
		if !isSt {
			return
		}
		ia, ok1 := st.Addr.(*ssa.IndexAddr)
		ld, ok2 := st.Val.(*ssa.UnOp)
		if !ok1 || !ok2 {
			return
		}
		src, ok3 := ld.X.(*ssa.IndexAddr)
		if !ok3 {
			return
		}
		if b, isB := stripConv(src.Index).(*ssa.BinOp); isB && b.Op.String() == "+" && stripConv(b.X) == stripConv(ia.Index) {
			if k, isK := constInt(b.Y); isK && k == 1 {
				ok = true
			}
		}
	})
	c.Check(ok, "C21.history", funcKey(f)+" · shift by one", f.Pos(), "ξ'[i] ← ξ[i+1]", "the history is not shifted by exactly one slot")
}

// c21VarthetaArms: arm selection of ϑ'.
func c21VarthetaArms(c *Ctx, f *ssa.Function) {
	// i == 0 arm stores E(W^Q,…); emptied arm is behind 1 <= i && i < τ'−τ; third behind i >= τ'−τ
	conds := abbrAll(condShapes(f))
	has := func(s string) bool {
		for _, x := range conds {
			if x == s {
				return true
			}
		}
		return false
	}
	tau := "int((post.GetTau((*internal/blockchain.ChainState).GetPosteriorStates(p0)) - prior.GetTau((*internal/blockchain.ChainState).GetPriorStates(p0))))"
	ok := has("("+tau+" <= *)") && has("phi((* < "+tau+") | false)")
	c.Check(ok, "C21.history", funcKey(f)+" · arm conditions", f.Pos(), "arms selected by i = 0, 1 ≤ i < τ'−τ, i ≥ τ'−τ", fmt.Sprintf("arm conditions are %v", conds))
}
