package main

import (
	"fmt"
	"go/types"
	"sort"
	"strings"

	"golang.org/x/tools/go/ssa"
)

// requireCall: f calls callee (by name suffix) exactly once per listed
// argument tuple and with nothing else.
func (c *Ctx) requireCall(rule, key string, f *ssa.Function, calleeSuffix string, want []string) {
	var got []string
	for _, fn := range withClosures(f) {
		allInstrs(fn, func(in ssa.Instruction) {
			ci, ok := in.(ssa.CallInstruction)
			if !ok {
				return
			}
			name := ""
			if ci.Common().IsInvoke() {
				name = ci.Common().Method.Name()
			} else if sc := calleeFunc(ci); sc != nil {
				name = relName(sc.String())
			}
			if !strings.HasSuffix(name, calleeSuffix) {
				return
			}
			var as []string
			for _, a := range ci.Common().Args {
				as = append(as, abbr(exprStr(a, shapeOpts)))
			}
			got = append(got, strings.Join(as, " ‖ "))
		})
	}
	ok := len(got) == len(want)
	if ok {
		seen := map[string]int{}
		for _, g := range got {
			seen[g]++
		}
		for _, w := range want {
			if seen[w] == 0 {
				ok = false
			}
			seen[w]--
		}
	}
	c.Check(ok, rule, key+" · "+calleeSuffix, f.Pos(), "called with "+strings.Join(got, " ;; "), fmt.Sprintf("%s is called with [%s]; the specification requires [%s]", calleeSuffix, strings.Join(got, " ;; "), strings.Join(want, " ;; ")))
	c.Check(mustCallOnEveryPath(f, calleeSuffix), rule, key+" · "+calleeSuffix+" on every path", f.Pos(), "no return is reachable without the call", "a path returns without calling "+calleeSuffix+": the component keeps a stale value")
}

func checkC21(c *Ctx) (string, []string) {
	A := "internal/accumulation."
	get := func(n string) *ssa.Function { return c.Fn(accPkg, n) }
	wbang, wq, hashes, dep, E, Q, P, wstar, uxi, uvt := get("UpdateImmediatelyAccumulateWorkReports"), get("UpdateQueuedWorkReports"), get("GetAccumulatedHashes"), get("GetDependencyFromWorkReport"), get("QueueEditingFunction"), get("AccumulationPriorityQueue"), get("ExtractWorkReportHashes"), get("UpdateAccumulatableWorkReports"), get("updateXi"), get("updateVartheta")
	if len(c.fatal) > 0 {
		return "", nil
	}
	av := "inter.GetAvailableWorkReports(INTER)"

	c.Rule("C21.partition", "W! = the available reports with no prerequisites and no segment-root lookups (GP 12.4); W^Q = E([D(w) | w available with a dependency], ©ξ) (12.5) with ©ξ the union of the prior accumulated history and D(w) = (w, prerequisites ∪ lookup package hashes)", 8)
	c.requireCall("C21.partition", A+"UpdateImmediatelyAccumulateWorkReports", wbang, "SetAccumulatedWorkReports", []string{"INTER ‖ ⊕(make([]types.WorkReport, 0); [" + av + "[*]][:])"})
	c21Both(c, wbang, true)
	c.requireCall("C21.partition", A+"UpdateQueuedWorkReports", wq, "SetQueuedWorkReports", []string{"INTER ‖ " + A + "QueueEditingFunction(⊕(make([]types.ReadyRecord, 0); [" + A + "GetDependencyFromWorkReport(" + av + "[*])][:]), " + A + "GetAccumulatedHashes())"})
	c21Both(c, wq, false)
	c.checkShapes("C21.partition", A+"GetAccumulatedHashes", hashes, abbrMap(returnShapes(hashes)), map[string][]string{"ret": {"⊕(make([]types.WorkPackageHash, 0); prior.GetXi(PRIOR)[*])"}})
	c.checkShapes("C21.partition", A+"GetDependencyFromWorkReport", dep, abbrMap(returnShapes(dep)), map[string][]string{"ret.Report": {"p0"}})
	c21Deps(c, dep)

	c.Rule("C21.edit", "E(r, x) (12.7): drops every record whose own package hash is in x, keeps the others in order with x's hashes removed from their dependency lists, and never writes through its arguments (the filtered dependency list is a fresh slice, the record is a copy); P extracts the package hashes in order", 7)
	c21Edit(c, E)
	c.checkShapes("C21.edit", A+"ExtractWorkReportHashes", P, abbrMap(returnShapes(P)), map[string][]string{"ret": {"⊕(make([]types.WorkPackageHash, 0); [p0[*].PackageSpec.Hash][:])"}})

	c.Rule("C21.priority", "Q(r) (12.8): g = reports of records with no remaining dependency, in order; empty g ends the recursion; otherwise g ⌢ Q(E(r, P(g))); W* = W! ⌢ Q(E(ϑ[m:] ⌢ ϑ[:m] ⌢ W^Q, P(W!))) with m = block slot mod E (12.10-12.12)", 3)
	c21Priority(c, Q, E, P)
	c21Wstar(c, wstar, E, Q, P)

	c.Rule("C21.history", "ξ'[E−1] = P(W*[:n]) and ξ'[i] = ξ[i+1] (12.31-12.32); ϑ' (12.33): slot m gets E(W^Q, ξ'[E−1]); the slots skipped since the prior block are emptied; every other slot gets E(ϑ[slot], ξ'[E−1]) — both edits remove exactly the hashes accumulated in this block", 6)
	cs := "(*internal/blockchain.ChainState)."
	post := cs + "GetPosteriorStates(p0)"
	pxi := "post.GetXi(" + post + ")"
	wst := "inter.GetAccumulatableWorkReports(" + cs + "GetIntermediateStates(p0))"
	effs := abbrAll(effectShapesOpt(uxi, func(string) bool { return false }, true))
	c.checkEffects("C21.history", A+"updateXi", uxi, effs, []string{
		"store &" + pxi + "[(types.EpochLength - 1)] ← " + A + "ExtractWorkReportHashes(" + wst + "[:p1])",
		"store &" + pxi + "[*] ← prior.GetXi(" + cs + "GetPriorStates(p0))[*]",
	})
	c21Shift(c, uxi)
	c.requireCall("C21.history", A+"updateXi", uxi, "SetXi", []string{post + " ‖ " + pxi})
	pv := "post.GetVartheta(" + post + ")"
	idx := "[(((((int(" + cs + "GetLatestBlock(p0).Header.Slot) % types.EpochLength) - *) + types.EpochLength) % types.EpochLength) % len(" + pv + "))]"
	last := pxi + "[(types.EpochLength - 1)]"
	effs = abbrAll(effectShapesOpt(uvt, func(string) bool { return false }, true))
	c.checkEffects("C21.history", A+"updateVartheta", uvt, effs, []string{
		"store &" + pv + idx + " ← [][:]",
		"store &" + pv + idx + " ← " + A + "QueueEditingFunction(inter.GetQueuedWorkReports(" + cs + "GetIntermediateStates(p0)), " + last + ")",
		"store &" + pv + idx + " ← " + A + "QueueEditingFunction(prior.GetVartheta(" + cs + "GetPriorStates(p0))" + idx + ", " + last + ")",
	})
	c.requireCall("C21.history", A+"updateVartheta", uvt, "SetVartheta", []string{post + " ‖ " + pv})
	c21VarthetaArms(c, uvt)
	_ = types.Typ
	return "Accumulation-queue mechanisms decided statically as provenance of what each step stores: W!, W^Q = E(D(·), ©ξ), E's drop/filter conditions and argument immutability, Q's recursion g ⌢ Q(E(r, P(g))), W* = W! ⌢ Q(E(ϑ[m:] ⌢ ϑ[:m] ⌢ W^Q, P(W!))), ξ' shift with P(W*[:n]) last, and the three arms of ϑ' all edited with ξ'[E−1].",
		[]string{"canonical SSA renderer (Σ/⊕ accumulation forms), GP 12.4-12.12, 12.31-12.33", "not decided: ordering semantics on runtime dependency graphs (cycles, duplicates), the value of n"}
}

// c21Both: the report list handed to the setter is built by appending, once per
// available report, under a selection that is decided as a truth table over
// (|prerequisites|, |segment-root lookups|) ∈ {0,1,2}²: W! takes a report iff
// both are empty, W^Q takes D(report) iff either is non-empty.
func c21Both(c *Ctx, f *ssa.Function, and bool) {
	o := robustOpts
	var app *ssa.Call
	napp := 0
	allInstrs(f, func(in ssa.Instruction) {
		if call, ok := in.(*ssa.Call); ok {
			if b, ok := call.Call.Value.(*ssa.Builtin); ok && b.Name() == "append" {
				app = call
				napp++
			}
		}
	})
	if app == nil || napp != 1 {
		c.Bad("C21.partition", funcKey(f)+" · selection", f.Pos(), "expected exactly one append building the selected list, found %d", napp)
		return
	}
	match := func(s string) int {
		switch {
		case strings.HasPrefix(s, "len(") && strings.HasSuffix(s, ".Context.Prerequisites)"):
			return 0
		case strings.HasPrefix(s, "len(") && strings.HasSuffix(s, ".SegmentRootLookup)"):
			return 1
		}
		return -1
	}
	rows, reached, ok := selectionTable(app, o, nil, match, [][]int64{{0, 1, 2}, {0, 1, 2}})
	msg := "a report is selected exactly when it has no prerequisite and no segment-root lookup"
	if !and {
		msg = "a report is queued exactly when it has a prerequisite or a segment-root lookup"
	}
	if !ok {
		c.Bad("C21.partition", funcKey(f)+" · selection", app.Pos(), "the selection is not a function of (|prerequisites|, |segment-root lookups|) of the report: some other test guards the append")
		return
	}
	bad := ""
	for i, r := range rows {
		free := r[0] == 0 && r[1] == 0
		if reached[i] != (free == and) {
			bad = fmt.Sprintf("with %d prerequisites and %d segment-root lookups the report is selected=%v", r[0], r[1], reached[i])
			break
		}
	}
	c.Check(bad == "", "C21.partition", funcKey(f)+" · selection", app.Pos(), msg+" (9/9 rows)", "the selection does not combine the two dependency tests as specified: "+bad+" ("+msg+")")
	// the tested report is the one taken
	el := abbr(exprStr(app.Call.Args[1], o))
	av := "inter.GetAvailableWorkReports(INTER)"
	want := "[" + av + "[*]][:]"
	if !and {
		want = "[internal/accumulation.GetDependencyFromWorkReport(" + av + "[*])][:]"
	}
	c.Check(el == want, "C21.partition", funcKey(f)+" · element", app.Pos(), "appends "+want, "appends "+el+" instead of "+want)
}

// c21Deps: D(w) collects prerequisites then lookup package hashes into one fresh list.
func c21Deps(c *Ctx, f *ssa.Function) {
	var elems []string
	fresh := false
	allInstrs(f, func(in ssa.Instruction) {
		switch x := in.(type) {
		case *ssa.Call:
			if b, ok := x.Call.Value.(*ssa.Builtin); ok && b.Name() == "append" {
				elems = append(elems, abbr(exprStr(x.Call.Args[1], shapeOpts)))
			}
		case *ssa.Store:
			if ms, ok := x.Val.(*ssa.MakeSlice); ok && strings.HasSuffix(abbr(exprStr(x.Addr, shapeOpts)), ".Dependencies") {
				_ = ms
				fresh = true
			}
		}
	})
	want := []string{"[p0.Context.Prerequisites[*]][:]", "[p0.SegmentRootLookup[*].WorkPackageHash][:]"}
	c.Check(fresh && len(elems) == 2 && elems[0] == want[0] && elems[1] == want[1], "C21.partition", funcKey(f)+" · dependencies", f.Pos(), "fresh list of prerequisites then lookup package hashes", fmt.Sprintf("dependency list built from %v (fresh=%v), expected %v", elems, fresh, want))
}

func c21Edit(c *Ctx, f *ssa.Function) {
	key := funcKey(f)
	o := robustOpts
	// the lookup set is built from x
	setOK := false
	allInstrs(f, func(in ssa.Instruction) {
		if mu, ok := in.(*ssa.MapUpdate); ok {
			if _, isMk := mu.Map.(*ssa.MakeMap); isMk && abbr(exprStr(mu.Key, o)) == "p1[*]" {
				setOK = true
			}
		}
	})
	c.Check(setOK, "C21.edit", key+" · removal set", f.Pos(), "membership set holds exactly the hashes of x", "the removal set is not built from every element of x")
	// appends (in E or in helpers it uses)
	type site struct {
		call  *ssa.Call
		g     *ssa.Function
		subst map[ssa.Value]string
	}
	var resApp, depApp *site
	visitWithHelpers(f, o, func(g *ssa.Function, subst map[ssa.Value]string, in ssa.Instruction) {
		call, ok := in.(*ssa.Call)
		if !ok {
			return
		}
		if b, ok := call.Call.Value.(*ssa.Builtin); !ok || b.Name() != "append" {
			return
		}
		switch {
		case strings.HasSuffix(typeStr(call.Type()), "types.ReadyQueueItem") || strings.Contains(typeStr(call.Type()), "ReadyRecord"):
			resApp = &site{call, g, subst}
		case strings.Contains(typeStr(call.Type()), "WorkPackageHash"):
			depApp = &site{call, g, subst}
		}
	})
	if resApp == nil || depApp == nil {
		c.Bad("C21.edit", key+" · structure", f.Pos(), "result append / dependency append not found")
		return
	}
	member := func(elemSuffix string) func(string) int {
		return func(s string) int {
			// set[elem] (bool-valued set) or set[elem]#1 (comma-ok lookup)
			if strings.HasPrefix(s, "makemap[") && (strings.HasSuffix(s, elemSuffix+"]#1") || strings.HasSuffix(s, elemSuffix+"]")) {
				return 0
			}
			return -1
		}
	}
	{
		rows, reached, ok := selectionTable(resApp.call, o, resApp.subst, member(".Report.PackageSpec.Hash"), [][]int64{{0, 1}})
		good := ok && len(rows) == 2
		if good {
			for i, r := range rows {
				if reached[i] != (r[0] == 0) {
					good = false
				}
			}
		}
		c.Check(good, "C21.edit", key+" · drops accumulated records", resApp.call.Pos(), "a record is kept exactly when its own package hash is not in x", "records whose package hash is in x are not dropped, or others are (the keep decision is not `own package hash ∉ x`)")
	}
	{
		rows, reached, ok := selectionTable(depApp.call, o, depApp.subst, member(".Dependencies[*]"), [][]int64{{0, 1}})
		good := ok && len(rows) == 2
		if good {
			for i, r := range rows {
				if reached[i] != (r[0] == 0) {
					good = false
				}
			}
		}
		el := abbr(exprStrSubst(depApp.call.Call.Args[1], o, depApp.subst))
		c.Check(good && strings.HasSuffix(el, ".Dependencies[*]][:]"), "C21.edit", key+" · filters dependencies", depApp.call.Pos(), "a dependency is kept exactly when it is not in x", "satisfied dependencies are not removed (or the wrong element is kept: "+el+")")
	}
	// freshness of the filtered list: the append chain starts at a make
	root := localRoot(depApp.call.Call.Args[0])
	_, isMake := root.(*ssa.MakeSlice)
	c.Check(isMake, "C21.edit", key+" · fresh dependency list", depApp.call.Pos(), "filtered dependencies are appended to a slice made in this call", "the filtered dependency list is built in the backing array of the caller's record ("+abbr(exprStr(depApp.call.Call.Args[0], shapeOpts))+"): stored queue entries are overwritten")
	// no store through parameters (E and its helpers)
	bad := ""
	visitWithHelpers(f, o, func(g *ssa.Function, subst map[ssa.Value]string, in ssa.Instruction) {
		if st, ok := in.(*ssa.Store); ok && !rootedInLocal(st.Addr) {
			bad = abbr(exprStr(st.Addr, shapeOpts))
		}
		if mu, ok := in.(*ssa.MapUpdate); ok && !rootedInLocal(mu.Map) {
			bad = abbr(exprStr(mu.Map, shapeOpts))
		}
	})
	c.Check(bad == "", "C21.edit", key+" · arguments untouched", f.Pos(), "no store outside local storage", "stores through "+bad)
	// the kept record carries the filtered list
	stOK := false
	allInstrs(f, func(in ssa.Instruction) {
		if st, ok := in.(*ssa.Store); ok && strings.HasSuffix(abbr(exprStr(st.Addr, shapeOpts)), ".Dependencies") {
			if localRoot(st.Val) == root && depApp.g == f {
				stOK = true
			}
			if call, isCall := st.Val.(*ssa.Call); isCall && call.Call.StaticCallee() == depApp.g && depApp.g != f {
				// the helper returns the list it filtered
				ok2 := true
				allInstrs(depApp.g, func(in2 ssa.Instruction) {
					if r, isR := in2.(*ssa.Return); isR && (len(r.Results) != 1 || localRoot(r.Results[0]) != root) {
						ok2 = false
					}
				})
				stOK = ok2
			}
		}
	})
	c.Check(stOK, "C21.edit", key+" · record carries filtered list", f.Pos(), "item.Dependencies ← filtered list before the record is appended", "the kept record does not receive the filtered dependency list")
}

// c21Priority: Q(r) as the GP recursion g ⌢ Q(E(r, P(g))) or as its loop form.
func c21Priority(c *Ctx, q, e, p *ssa.Function) {
	A := "internal/accumulation."
	key := A + "AccumulationPriorityQueue"
	o := robustOpts
	// g: appends of item.Report selected by |item.Dependencies| = 0
	var gApp *ssa.Call
	allInstrs(q, func(in ssa.Instruction) {
		if call, ok := in.(*ssa.Call); ok {
			if b, ok := call.Call.Value.(*ssa.Builtin); ok && b.Name() == "append" && strings.HasSuffix(abbr(exprStr(call.Call.Args[1], o)), "[*].Report][:]") {
				gApp = call
			}
		}
	})
	// … or the scan is a package helper applied to the queue: g is its result, the queue its argument
	var helperCall *ssa.Call
	if gApp == nil {
		allInstrs(q, func(in ssa.Instruction) {
			call, ok := in.(*ssa.Call)
			if !ok || helperCall != nil {
				return
			}
			h := call.Call.StaticCallee()
			if h == nil || h == q || h == e || h == p || len(h.Blocks) == 0 || h.Pkg != q.Pkg || len(h.Params) != 1 {
				return
			}
			allInstrs(h, func(x ssa.Instruction) {
				if hc, ok := x.(*ssa.Call); ok {
					if b, ok := hc.Call.Value.(*ssa.Builtin); ok && b.Name() == "append" && strings.HasSuffix(abbr(exprStr(hc.Call.Args[1], o)), "[*].Report][:]") {
						// the helper returns the list it collected
						okRet := true
						allInstrs(h, func(y ssa.Instruction) {
							if r, isR := y.(*ssa.Return); isR {
								if len(r.Results) != 1 || !(reachesValue(r.Results[0], hc, 0) || abbr(exprStr(r.Results[0], o)) == abbr(exprStr(hc, o))) {
									okRet = false
								}
							}
						})
						if okRet {
							gApp, helperCall = hc, call
						}
					}
				}
			})
		})
	}
	if gApp == nil {
		c.Bad("C21.priority", key+" · ready reports", q.Pos(), "no list of the records' reports is collected")
		return
	}
	rows, reached, ok := selectionTable(gApp, o, nil, func(s string) int {
		if strings.HasPrefix(s, "len(") && strings.HasSuffix(s, "[*].Dependencies)") {
			return 0
		}
		return -1
	}, [][]int64{{0, 1, 2}})
	good := ok
	for i, r := range rows {
		if reached[i] != (r[0] == 0) {
			good = false
		}
	}
	c.Check(good, "C21.priority", key+" · ready reports", gApp.Pos(), "g collects the report of exactly the records with no remaining dependency, in order", "g is not selected by `no remaining dependency`")
	// the list the records are taken from
	var queue ssa.Value
	if sl, isSl := gApp.Call.Args[1].(*ssa.Slice); isSl {
		if a, isA := sl.X.(*ssa.Alloc); isA {
			if es := arrayLiteral(a); len(es) == 1 {
				v := es[0]
				for i := 0; i < 12; i++ {
					switch x := v.(type) {
					case *ssa.UnOp:
						v = x.X
						continue
					case *ssa.Alloc:
						if sv := singleStore(x); sv != nil {
							v = sv
							continue
						}
					case *ssa.FieldAddr:
						v = x.X
						continue
					case *ssa.Field:
						v = x.X
						continue
					case *ssa.IndexAddr:
						queue = x.X
					case *ssa.Index:
						queue = x.X
					}
					break
				}
			}
		}
	}
	// the accumulated g (append-phi) and the step E(queue, P(g))
	var gList ssa.Value
	for _, r := range *gApp.Referrers() {
		if ph, ok := r.(*ssa.Phi); ok {
			gList = ph
		}
	}
	if helperCall != nil {
		// in Q's terms: the helper was scanning its parameter
		if pv, isP := stripConv(queue).(*ssa.Parameter); queue != nil && isP && pv.Parent() == gApp.Parent() {
			queue = helperCall.Call.Args[0]
		} else {
			queue = nil
		}
		gList = helperCall
	}
	stepOK, recur := false, false
	allInstrs(q, func(in ssa.Instruction) {
		call, ok := in.(*ssa.Call)
		if !ok || call.Call.StaticCallee() != e {
			return
		}
		a0 := call.Call.Args[0]
		pc, isCall := call.Call.Args[1].(*ssa.Call)
		if !isCall || pc.Call.StaticCallee() != p {
			return
		}
		sameQueue := queue != nil && (a0 == queue || stripConv(a0) == stripConv(queue))
		gArg := pc.Call.Args[0]
		sameG := gList != nil && (gArg == gList || reachesValue(gArg, gList, 0))
		if sameQueue && sameG {
			stepOK = true
		}
	})
	allInstrs(q, func(in ssa.Instruction) {
		if call, ok := in.(*ssa.Call); ok && call.Call.StaticCallee() == q {
			recur = true
		}
	})
	c.Check(stepOK, "C21.priority", key+" · step", q.Pos(), "the queue continues as E(r, P(g)) with the same r and g", "the next round is not E(r, P(g)) over the queue g was drawn from")
	if recur {
		g := "⊕(make([]types.WorkReport, 0); [p0[*].Report][:])"
		rec := A + "AccumulationPriorityQueue(" + A + "QueueEditingFunction(p0, " + A + "ExtractWorkReportHashes(" + g + ")))"
		var rets []string
		for _, s := range abbrMap(returnShapesO(q, o))["ret"] {
			rets = append(rets, expandAlts(s)...)
		}
		c.requireSet("C21.priority", key+" · result", q.Pos(), "Q returns", uniqSorted(rets), []string{"cat(" + g + ", " + rec + ")", "nil"})
		c.requireAtoms("C21.priority", key, q, o, []string{"(0 == len(" + g + "))"})
	} else {
		// loop form: output accumulates g in order; returns output when g is empty
		okAcc := false
		allInstrs(q, func(in ssa.Instruction) {
			call, ok := in.(*ssa.Call)
			if !ok {
				return
			}
			if b, ok := call.Call.Value.(*ssa.Builtin); ok && b.Name() == "append" && gList != nil && (call.Call.Args[1] == gList || reachesValue(call.Call.Args[1], gList, 0)) {
				if _, isPhi := stripConv(call.Call.Args[0]).(*ssa.Phi); isPhi {
					okAcc = true
				}
			}
		})
		emptyEnds := false
		allInstrs(q, func(in ssa.Instruction) {
			ifi, ok := in.(*ssa.If)
			if !ok {
				return
			}
			s := abbr(exprStr(ifi.Cond, o))
			if strings.HasPrefix(s, "(0 == len(⊕(make([]types.WorkReport, 0); [") || strings.HasPrefix(s, "(0 != len(⊕(make([]types.WorkReport, 0); [") || strings.HasPrefix(s, "(0 < len(⊕(make([]types.WorkReport, 0); [") {
				emptyEnds = true
			}
			// or any comparison of len(g) with 0
			if bo, isB := ifi.Cond.(*ssa.BinOp); isB && gList != nil {
				for _, pair := range [][2]ssa.Value{{bo.X, bo.Y}, {bo.Y, bo.X}} {
					lc, isC := stripConv(pair[0]).(*ssa.Call)
					k, isK := constInt(pair[1])
					if !isC || !isK || k != 0 {
						continue
					}
					if b, isBI := lc.Call.Value.(*ssa.Builtin); isBI && b.Name() == "len" && reachesValue(lc.Call.Args[0], gList, 0) {
						emptyEnds = true
					}
				}
			}
		})
		c.Check(okAcc && emptyEnds, "C21.priority", key+" · result", q.Pos(), "each round's g is appended to the output in order; an empty g ends the loop", "the loop does not accumulate g ⌢ … in order or does not stop on an empty g")
		c.OK("C21.priority", key+" · tests (0 == len(g))", q.Pos(), "empty g ends the iteration")
	}
}

// reachesValue: v is w up to conversions, reslicing of the whole, or phis.
func reachesValue(v, w ssa.Value, d int) bool {
	if d > 6 {
		return false
	}
	v = stripConv(v)
	if v == w {
		return true
	}
	switch x := v.(type) {
	case *ssa.Phi:
		for _, e := range x.Edges {
			if reachesValue(e, w, d+1) {
				return true
			}
		}
	case *ssa.Slice:
		if x.Low == nil && x.High == nil {
			return reachesValue(x.X, w, d+1)
		}
	}
	return false
}

// c21Shift: the loop store is ξ'[i] ← ξ[i+1].
func c21Shift(c *Ctx, f *ssa.Function) {
	ok := false
	allInstrs(f, func(in ssa.Instruction) {
		st, isSt := in.(*ssa.Store)
		if !isSt {
			return
		}
		ia, ok1 := st.Addr.(*ssa.IndexAddr)
		ld, ok2 := st.Val.(*ssa.UnOp)
		if !ok1 || !ok2 {
			return
		}
		src, ok3 := ld.X.(*ssa.IndexAddr)
		if !ok3 {
			return
		}
		if b, isB := stripConv(src.Index).(*ssa.BinOp); isB && b.Op.String() == "+" && stripConv(b.X) == stripConv(ia.Index) {
			if k, isK := constInt(b.Y); isK && k == 1 {
				ok = true
			}
		}
	})
	c.Check(ok, "C21.history", funcKey(f)+" · shift by one", f.Pos(), "ξ'[i] ← ξ[i+1]", "the history is not shifted by exactly one slot")
}

// c21VarthetaArms: arm selection of ϑ', decided as a table over (i, τ'−τ) ∈ {0..3}²:
// i = 0 ↦ E(W^Q, ·); 1 ≤ i < τ'−τ ↦ emptied; otherwise ↦ E(ϑ[slot], ·).
func c21VarthetaArms(c *Ctx, f *ssa.Function) {
	o := robustOpts
	arms := map[string]*ssa.Store{}
	allInstrs(f, func(in ssa.Instruction) {
		st, ok := in.(*ssa.Store)
		if !ok {
			return
		}
		if _, isIA := st.Addr.(*ssa.IndexAddr); !isIA {
			return
		}
		v := abbr(exprStr(st.Val, o))
		switch {
		case strings.Contains(v, "QueueEditingFunction(inter.GetQueuedWorkReports("):
			arms["queued"] = st
		case strings.Contains(v, "QueueEditingFunction(prior.GetVartheta("):
			arms["carried"] = st
		case v == "[][:]" || v == "nil" || strings.HasPrefix(v, "make([]types.ReadyRecord, 0"):
			arms["emptied"] = st
		}
	})
	if len(arms) != 3 {
		c.Bad("C21.history", funcKey(f)+" · arm conditions", f.Pos(), "the three stores of ϑ' (queued, emptied, carried) were not all found (found %d)", len(arms))
		return
	}
	match := func(s string) int {
		switch {
		case s == "*":
			return 0
		case strings.Contains(s, "GetTau(") && strings.HasSuffix(s, "GetPriorStates(p0)))") && !strings.HasPrefix(s, "int("):
			return 1
		}
		return -1
	}
	bad := ""
	for name, st := range arms {
		rows, reached, ok := selectionTable(st, o, nil, match, [][]int64{{0, 1, 2, 3}, {0, 1, 2, 3}})
		if !ok {
			bad = "the " + name + " arm is guarded by something other than the slot offset i and τ'−τ"
			break
		}
		for k, r := range rows {
			i, off := r[0], r[1]
			want := false
			switch name {
			case "queued":
				want = i == 0
			case "emptied":
				want = i >= 1 && i < off
			case "carried":
				want = i != 0 && i >= off
			}
			if reached[k] != want {
				bad = fmt.Sprintf("with i=%d and τ'−τ=%d the %s arm is taken=%v", i, off, name, reached[k])
				break
			}
		}
		if bad != "" {
			break
		}
	}
	c.Check(bad == "", "C21.history", funcKey(f)+" · arm conditions", f.Pos(), "arms selected by i = 0, 1 ≤ i < τ'−τ, i ≥ τ'−τ (48/48 rows)", bad)
}

// c21Wstar: W* = W! ⌢ Q(E(ϑ[m:] ⌢ ϑ[:m] ⌢ W^Q, P(W!))).
func c21Wstar(c *Ctx, f, e, q, p *ssa.Function) {
	A := "internal/accumulation."
	key := A + "UpdateAccumulatableWorkReports"
	o := robustOpts
	var ecall *ssa.Call
	allInstrs(f, func(in ssa.Instruction) {
		if call, ok := in.(*ssa.Call); ok && call.Call.StaticCallee() == e {
			ecall = call
		}
	})
	if ecall == nil {
		c.Bad("C21.priority", key+" · SetAccumulatableWorkReports", f.Pos(), "no queue edit E(…) in the computation of W*")
		return
	}
	oa := o
	oa.abstract = func(v ssa.Value) (string, bool) {
		if v == ecall.Call.Args[0] {
			return "COMPOSED", true
		}
		return "", false
	}
	var got []string
	allInstrs(f, func(in ssa.Instruction) {
		if ci, ok := in.(ssa.CallInstruction); ok {
			name := ""
			if ci.Common().IsInvoke() {
				name = ci.Common().Method.Name()
			} else if sc := calleeFunc(ci); sc != nil {
				name = sc.Name()
			}
			if name == "SetAccumulatableWorkReports" {
				got = append(got, abbr(exprStr(ci.Common().Args[len(ci.Common().Args)-1], oa)))
			}
		}
	})
	want := "cat(inter.GetAccumulatedWorkReports(INTER), " + A + "AccumulationPriorityQueue(" + A + "QueueEditingFunction(COMPOSED, " + A + "ExtractWorkReportHashes(inter.GetAccumulatedWorkReports(INTER)))))"
	c.Check(len(got) == 1 && got[0] == want, "C21.priority", key+" · SetAccumulatableWorkReports", f.Pos(), "W* = W! ⌢ Q(E(composed, P(W!)))", fmt.Sprintf("SetAccumulatableWorkReports is called with %v; the specification requires %s", got, want))
	c.Check(mustCallOnEveryPath(f, "SetAccumulatableWorkReports"), "C21.priority", key+" · SetAccumulatableWorkReports on every path", f.Pos(), "no return is reachable without the call", "a path returns without storing W*")
	// the composed queue: sources of its appends in program order
	os := o
	os.seqLit = true
	var srcs []string
	var apps []*ssa.Call
	allInstrs(f, func(in ssa.Instruction) {
		if call, ok := in.(*ssa.Call); ok {
			if b, ok := call.Call.Value.(*ssa.Builtin); ok && b.Name() == "append" && strings.Contains(typeStr(call.Type()), "Ready") {
				apps = append(apps, call)
			}
		}
	})
	sort.SliceStable(apps, func(i, j int) bool { return apps[i].Pos() < apps[j].Pos() }) // straight-line sequence of loops: source order is execution order
	for _, a := range apps {
		srcs = append(srcs, expandSeq(abbr(exprStr(a.Call.Args[1], os)))...)
	}
	m := "(int(BLOCK.Header.Slot) % types.EpochLength)"
	wantS := []string{"prior.GetVartheta(PRIOR)[" + m + ":][*]", "prior.GetVartheta(PRIOR)[:" + m + "][*]", "inter.GetQueuedWorkReports(INTER)"}
	c.Check(strings.Join(srcs, " ;; ") == strings.Join(wantS, " ;; "), "C21.priority", key+" · composed queue", f.Pos(), "composed = ϑ[m:] ⌢ ϑ[:m] ⌢ W^Q with m = slot mod E", fmt.Sprintf("the composed queue is built from %v in that order; GP 12.12 takes %v", srcs, wantS))
	// the appends all feed the edited queue
	fed := true
	for _, a := range apps {
		if !feeds(a, ecall.Call.Args[0], map[ssa.Value]bool{}, 0) {
			fed = false
		}
	}
	c.Check(fed && len(apps) > 0, "C21.priority", key+" · composed queue is what is edited", f.Pos(), "every part reaches E's first argument", "a part of the composed queue does not reach the edit")
}

// feeds: value a flows into v through append bases and phis.
func feeds(a ssa.Value, v ssa.Value, seen map[ssa.Value]bool, d int) bool {
	if v == a {
		return true
	}
	if seen[v] || d > 20 {
		return false
	}
	seen[v] = true
	switch x := v.(type) {
	case *ssa.Phi:
		for _, e := range x.Edges {
			if feeds(a, e, seen, d+1) {
				return true
			}
		}
	case *ssa.Call:
		if b, ok := x.Call.Value.(*ssa.Builtin); ok && b.Name() == "append" {
			return feeds(a, x.Call.Args[0], seen, d+1)
		}
	case *ssa.ChangeType:
		return feeds(a, x.X, seen, d+1)
	}
	return false
}
