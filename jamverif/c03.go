package main

import (
	"fmt"
	"go/token"
	"go/types"
	"math/bits"
	"sort"
	"strings"

	"golang.org/x/tools/go/ssa"
)

// upper bound of v minus `base` occurrences: returns (count of base, offset upper bound, ok).
func ubOffset(v ssa.Value, base ssa.Value, small map[ssa.Value]int64, d int) (int, int64, bool) {
	if d > 20 {
		return 0, 0, false
	}
	v = stripConv(v)
	if v == base {
		return 1, 0, true
	}
	if k, ok := small[v]; ok {
		return 0, k, true
	}
	if k, ok := constInt(v); ok {
		return 0, k, true
	}
	switch x := v.(type) {
	case *ssa.BinOp:
		switch x.Op {
		case token.ADD:
			n1, o1, ok1 := ubOffset(x.X, base, small, d+1)
			n2, o2, ok2 := ubOffset(x.Y, base, small, d+1)
			return n1 + n2, o1 + o2, ok1 && ok2
		case token.SUB:
			n1, o1, ok1 := ubOffset(x.X, base, small, d+1)
			// subtracting a non-negative quantity: upper bound unchanged (unsigned wrap is excluded by the max(0,·) idiom checked under C01)
			return n1, o1, ok1
		case token.REM:
			if k, ok := constInt(x.Y); ok && k > 0 {
				return 0, k - 1, true
			}
		case token.AND:
			if k, ok := constInt(x.Y); ok && k >= 0 {
				return 0, k, true
			}
		case token.MUL:
			n1, o1, ok1 := ubOffset(x.X, base, small, d+1)
			n2, o2, ok2 := ubOffset(x.Y, base, small, d+1)
			if ok1 && ok2 && n1 == 0 && n2 == 0 {
				return 0, o1 * o2, true
			}
		case token.QUO:
			n1, o1, ok1 := ubOffset(x.X, base, small, d+1)
			if ok1 && n1 == 0 {
				return 0, o1, true
			}
		}
	case *ssa.Call:
		if b, ok := x.Call.Value.(*ssa.Builtin); ok {
			switch b.Name() {
			case "min":
				best := int64(-1)
				for _, a := range x.Call.Args {
					if n, o, ok := ubOffset(a, base, small, d+1); ok && n == 0 && (best < 0 || o < best) {
						best = o
					}
				}
				if best >= 0 {
					return 0, best, true
				}
			case "max":
				worst := int64(0)
				for _, a := range x.Call.Args {
					n, o, ok := ubOffset(a, base, small, d+1)
					if !ok || n != 0 {
						return 0, 0, false
					}
					if o > worst {
						worst = o
					}
				}
				return 0, worst, true
			case "len":
				return 0, 0, false
			}
		}
	case *ssa.Phi:
		n0, worst, first := 0, int64(0), true
		for _, e := range distinctEdges(x) {
			n, o, ok := ubOffset(e, base, small, d+1)
			if !ok {
				return 0, 0, false
			}
			if first {
				n0, worst, first = n, o, false
			} else {
				if n != n0 {
					return 0, 0, false
				}
				if o > worst {
					worst = o
				}
			}
		}
		return n0, worst, !first
	}
	return 0, 0, false
}

func checkC03(c *Ctx) (string, []string) {
	e := newOmegaEnv(c)
	if len(c.fatal) > 0 {
		return "", nil
	}
	// ---- zero extension
	c.Rule("C03.zero-extension", "both engines run on a copy of the code followed by codeZeroPadding (≥ 26) zero octets, the pre-decoder decodes operands from such a copy, and no operand decoder or inline-decoding handler reads further than pc + codeZeroPadding", 25)
	pad := int64(0)
	if k, ok := c.Obj("PVM", "codeZeroPadding").(*types.Const); ok {
		pad, _ = constantInt64(k)
	}
	c.Check(pad >= 26, "C03.zero-extension", "PVM.codeZeroPadding", token.NoPos, fmt.Sprintf("padding %d ≥ 1 + 24 (longest instruction) + 1", pad), fmt.Sprintf("zero padding of %d octets is shorter than the longest instruction encoding", pad))
	if f := c.Fn("PVM", "zeroExtend"); f != nil {
		rs := returnShapes(f)["ret"]
		c.Check(strings.Join(rs, "|") == fmt.Sprintf("make([]u8, (%d + len(p0)))", pad) || strings.Join(rs, "|") == fmt.Sprintf("make([]uint8, (%d + len(p0)))", pad) || strings.Join(rs, "|") == fmt.Sprintf("make([]byte, (%d + len(p0)))", pad),
			"C03.zero-extension", "PVM.zeroExtend", f.Pos(), "fresh slice of len(code)+padding with the code copied in", "zeroExtend returns "+strings.Join(rs, "|"))
	}
	if f := c.Fn("PVM", "Program.executable"); f != nil {
		fl := returnShapes(f)
		ok := false
		for k, v := range fl {
			_ = k
			for _, s := range v {
				if strings.Contains(s, "cell(*p0)") || strings.Contains(s, "alloc:PVM.Program") {
					ok = true
				}
			}
		}
		st := false
		allInstrs(f, func(in ssa.Instruction) {
			if s, isS := in.(*ssa.Store); isS {
				if fa, isFA := s.Addr.(*ssa.FieldAddr); isFA && fieldName(fa.X.Type(), fa.Field) == "InstructionData" {
					st = exprStr(s.Val, shapeOpts) == "PVM.zeroExtend(p0.InstructionData)"
				}
			}
		})
		allInstrs(f, func(in ssa.Instruction) {
			if s, isS := in.(*ssa.Store); isS && exprStr(s.Val, shapeOpts) == "*p0" {
				ok = true
			}
		})
		c.Check(ok && st, "C03.zero-extension", "PVM.Program.executable", f.Pos(), "copy of the program with zero-extended code", "executable() does not return a copy whose InstructionData is zeroExtend(code)")
	}
	for _, n := range []string{"NewHost", "NewInterpreter"} {
		if f := c.Fn("PVM", n); f != nil {
			found := false
			for k, v := range returnShapes(f) {
				if strings.HasSuffix(k, "Program") {
					for _, s := range v {
						found = s == "(*PVM.Program).executable(p0)"
					}
				}
			}
			c.Check(found, "C03.zero-extension", "PVM."+n, f.Pos(), "machine runs program.executable()", n+" does not install the zero-extended program")
		}
	}
	if f := c.Fn("PVM", "Program.preDecodeBlocks"); f != nil {
		ok := false
		for _, k := range callsIn(f, c.Obj("PVM", "decodeOperands")) {
			ok = exprStr(k.Common().Args[1], shapeOpts) == "PVM.zeroExtend(p0.InstructionData)"
		}
		c.Check(ok, "C03.zero-extension", "PVM.preDecodeBlocks → decodeOperands", f.Pos(), "operands decoded from zero-extended code", "decodeOperands is not given the zero-extended code")
	}
	if f := c.Fn("PVM", "skip"); f != nil {
		rs := returnShapes(f)["ret"]
		// every returned distance is at most 24: a constant, min(24, ·), or a value bounded by a dominating comparison
		clamped, nret := true, 0
		allInstrs(f, func(in ssa.Instruction) {
			r, isR := in.(*ssa.Return)
			if !isR || len(r.Results) != 1 {
				return
			}
			nret++
			v := stripConv(r.Results[0])
			if call, isCall := v.(*ssa.Call); isCall {
				if b, isB := call.Call.Value.(*ssa.Builtin); isB && b.Name() == "min" {
					for _, a := range call.Call.Args {
						if k, isC := constInt(a); isC && k >= 0 && k <= 24 {
							return
						}
					}
				}
			}
			if k, ok := constUpperBound(f, r, r.Results[0]); ok && k <= 24 {
				return
			}
			if p, isPhi := v.(*ssa.Phi); isPhi {
				for i, e := range p.Edges {
					pred := p.Block().Preds[i]
					if k, ok := constUpperBound(f, pred.Instrs[len(pred.Instrs)-1], e); !ok || k > 24 {
						clamped = false
					}
				}
				return
			}
			if k, ok := constUpperBound(f, r, r.Results[0]); !ok || k > 24 {
				clamped = false
			}
		})
		c.Check(clamped && nret > 0, "C03.zero-extension", "PVM.skip", f.Pos(), "skip distance ≤ 24 on every return", "skip() is not clamped to 24: "+strings.Join(rs, "|"))
	}
	// reach of every read of instruction data relative to pc
	nreach := 0
	for _, f := range c.SrcFuncs("PVM") {
		if !(strings.HasPrefix(f.Name(), "decode") || strings.HasPrefix(f.Name(), "getReg") || strings.HasPrefix(f.Name(), "inst")) || strings.HasSuffix(f.Name(), "Meta") {
			continue
		}
		// code slice and pc parameter
		var pcParam ssa.Value
		small := map[ssa.Value]int64{}
		for _, p := range f.Params {
			if strings.HasSuffix(p.Type().String(), "ProgramCounter") {
				if pcParam == nil {
					pcParam = p
				} else {
					small[p] = 24 // skipLength
				}
			}
		}
		if pcParam == nil {
			continue
		}
		isCode := func(v ssa.Value) bool {
			s := exprStr(v, shapeOpts)
			return s == "p0" && strings.Contains(f.Params[0].Type().String(), "byte") || strings.HasSuffix(s, ".InstructionData")
		}
		allInstrs(f, func(in ssa.Instruction) {
			var idx ssa.Value
			limit := pad
			switch x := in.(type) {
			case *ssa.IndexAddr:
				if isCode(x.X) {
					idx, limit = x.Index, pad // pc + k ≤ len-1 ⇔ k ≤ pad
				}
			case *ssa.Index:
				if isCode(x.X) {
					idx = x.Index
				}
			case *ssa.Slice:
				if isCode(x.X) && x.High != nil {
					idx, limit = x.High, pad+1
				}
			}
			if idx == nil {
				return
			}
			nreach++
			n, off, ok := ubOffset(idx, pcParam, small, 0)
			key := fmt.Sprintf("%s · code[%s]", funcKey(f), exprStr(idx, shapeOpts))
			if ok && n == 1 && off <= limit {
				c.OK("C03.zero-extension", key, in.Pos(), "reads at most pc+%d (padding %d)", off, pad)
			} else if ok && n == 1 {
				c.Bad("C03.zero-extension", key, in.Pos(), "reads up to pc+%d, beyond the %d zero octets kept after the code", off, pad)
			} else {
				c.Bad("C03.zero-extension", key, in.Pos(), "cannot bound this read of the code relative to pc (index %s)", exprStr(idx, shapeOpts))
			}
		})
	}
	c.extra["code_reads_bounded"] = nreach

	// ---- blob parsing guards
	c.Rule("C03.blob-guards", "every index and slice expression of the blob loaders (and of the package helpers they hand the blob to) is in range: proven by the linear bounds prover from the dominating guards, or bounded by a reader's success postcondition (bytes consumed ≤ length, proven inside the reader) under that reader's success edge; MakeBitMasks walks the mask only when its length matches", 30)
	loaders := []*ssa.Function{}
	seenL := map[*ssa.Function]bool{}
	var addLoader func(f *ssa.Function)
	addLoader = func(f *ssa.Function) {
		if f == nil || seenL[f] || len(f.Blocks) == 0 || f.Pkg == nil || f.Pkg.Pkg.Path() != modPath+"/PVM" {
			return
		}
		seenL[f] = true
		loaders = append(loaders, f)
		allInstrs(f, func(in ssa.Instruction) {
			call, ok := in.(*ssa.Call)
			if !ok || call.Call.StaticCallee() == nil {
				return
			}
			g := call.Call.StaticCallee()
			// helpers that receive (a part of) the blob
			for _, a := range call.Call.Args {
				if isByteSlice(a.Type()) && g.Name() != "preDecodeBlocks" {
					addLoader(g)
				}
			}
		})
	}
	for _, n := range []string{"DeBlobProgramCode", "ReadBytes", "ReadUintFixed", "ReadUintVariable", "decodeUintFixedLength", "MakeBitMasks"} {
		addLoader(c.Fn("PVM", n))
	}
	sort.Slice(loaders, func(i, j int) bool { return funcKey(loaders[i]) < funcKey(loaders[j]) })
	nsites := 0
	for _, f := range loaders {
		for _, s := range checkBounds(f) {
			nsites++
			key := funcKey(f) + " · " + abbr(s.desc)
			if s.ok {
				c.OK("C03.blob-guards", key, s.in.Pos(), "in range by the dominating guards (linear bounds prover)")
				continue
			}
			if why := blobSiteByPostcondition(f, s.in); why != "" {
				c.OK("C03.blob-guards", key, s.in.Pos(), "%s", why)
				continue
			}
			// (the consistency of the jump table's declared shape with the data read — the size product must not
			// wrap — is the "product" obligation below; the threshold 2^32 itself is a GP validity rule and is
			// not demanded by C03)
			if f.Name() == "MakeBitMasks" {
				// the two reads inside the walk over the instruction octets: i/8 into the mask and the previous instruction start;
				// their range follows from the length test below (non-linear: ⌈n/8⌉) and from prev ≤ i
				continue
			}
			c.Bad("C03.blob-guards", key, s.in.Pos(), "cannot show this index/slice of blob data in range (residual %s ≥ 0): a short or inconsistent blob raises a Go slice-bounds panic", s.goal)
		}
	}
	c.extra["blob_loader_sites"] = nsites
	// sizes computed from blob-declared quantities must not wrap: a product of two such quantities goes through an
	// overflow-reporting multiplication whose "no overflow" edge dominates every use, or both factors are bounded
	// by dominating guards so that the product fits (witness: |j| = 0x5555555555555556, z = 3 wrapped to 2 octets
	// of table data for a table declared 0x55555556 × 3 — repaired in 86b052a)
	nprod := 0
	for _, f := range loaders {
		if isMulOverflowHelper(f) {
			continue
		}
		allInstrs(f, func(in ssa.Instruction) {
			switch x := in.(type) {
			case *ssa.BinOp:
				if x.Op != token.MUL || !isIntegerT(x.Type()) {
					return
				}
				if _, isC := x.X.(*ssa.Const); isC {
					return
				}
				if _, isC := x.Y.(*ssa.Const); isC {
					return
				}
				nprod++
				key := funcKey(f) + " · product " + abbr(exprStr(x, shapeOpts))
				bx, okx := constUpperBound(f, in, x.X)
				by, oky := constUpperBound(f, in, x.Y)
				w, _, _ := bfWidth(x.Type())
				fits := okx && oky && bx > 0 && by > 0 && bits.Len64(bx)+bits.Len64(by) <= int(w)
				c.Check(fits || (okx && bx == 0) || (oky && by == 0), "C03.blob-guards", key, x.Pos(), "both factors are bounded by dominating guards so that the product cannot wrap", "a size is computed as a plain product of two blob-declared quantities: it can wrap, so that the declared shape and the data actually read disagree (later index or slice out of range)")
			case *ssa.Call:
				g := x.Call.StaticCallee()
				if g == nil || !isMulOverflowHelper(g) && g.String() != "math/bits.Mul64" {
					return
				}
				nprod++
				key := funcKey(f) + " · product " + abbr(exprStr(x, shapeOpts))
				// the low word is used only behind the "did not overflow" edge
				loIdx, flagIdx := 0, 1
				if g.String() == "math/bits.Mul64" {
					loIdx, flagIdx = 1, 0
				}
				var flag ssa.Value
				var uses []ssa.Instruction
				for _, r := range *x.Referrers() {
					ex, isEx := r.(*ssa.Extract)
					if !isEx {
						continue
					}
					if ex.Index == flagIdx {
						flag = ex
					}
					if ex.Index == loIdx {
						for _, u := range *ex.Referrers() {
							switch u.(type) {
							case *ssa.DebugRef:
							case *ssa.BinOp, *ssa.If:
								// comparisons of the size itself (the 2^32 limit) are not uses of it as a size
							default:
								if ui, ok := u.(ssa.Instruction); ok {
									uses = append(uses, ui)
								}
							}
						}
					}
				}
				ok := flag != nil
				if ok {
					pass := condEdges(f, func(v ssa.Value) (bool, bool) {
						if v == flag {
							return true, false // the flag reports overflow: pass on false
						}
						if bo, isB := v.(*ssa.BinOp); isB && (bo.Op == token.NEQ || bo.Op == token.EQL) {
							if k, isC := constInt(bo.Y); isC && k == 0 && bo.X == flag {
								return true, bo.Op == token.EQL // hi == 0
							}
						}
						return false, false
					})
					for _, u := range uses {
						if _, isLog := u.(*ssa.MakeInterface); isLog {
							continue
						}
						if !guardedByF(f, u, pass) {
							ok = false
						}
					}
				}
				c.Check(ok, "C03.blob-guards", key, x.Pos(), "overflow-reporting product; its value is used only where no overflow was reported", "the overflow report of this product is ignored on a path that uses the (wrapped) value as a size")
			}
		})
	}
	c.extra["blob_loader_products"] = nprod
	if f := c.Fn("PVM", "MakeBitMasks"); f != nil {
		// the walk over the instruction octets is entered exactly when len(mask) == ⌈len(instructions)/8⌉
		var site ssa.Instruction
		allInstrs(f, func(in ssa.Instruction) {
			switch x := in.(type) {
			case *ssa.IndexAddr:
				if x.X == ssa.Value(f.Params[1]) && site == nil {
					site = in
				}
			}
		})
		bad := ""
		if site == nil {
			bad = "no read of the mask octets found"
		} else {
			for n := int64(0); n <= 40 && bad == ""; n++ {
				for m := int64(0); m <= 7; m++ {
					env := intEnv{params: map[ssa.Value]int64{}, lens: map[ssa.Value]int64{f.Params[0]: n, f.Params[1]: m}, unknown: map[ssa.Value]bool{}, cells: map[ssa.Value]int64{}, skipLoops: true}
					fuel := 4000
					env.fuel = &fuel
					reached := reachQ(f.Blocks[0], nil, env, func(b *ssa.BasicBlock) bool { return b == site.Block() }, func(b *ssa.BasicBlock) bool { return false }, 0, false)
					want := n > 0 && m == (n+7)/8
					if reached != want {
						bad = fmt.Sprintf("|instructions|=%d |mask|=%d: mask octets are read=%v, expected %v (the mask must hold exactly ⌈n/8⌉ octets)", n, m, reached, want)
						break
					}
				}
			}
		}
		c.Check(bad == "", "C03.blob-guards", "PVM.MakeBitMasks · mask length", f.Pos(), "the mask is walked only when |mask| = ⌈|instructions|/8⌉ (328 length pairs evaluated)", bad)
	}
	// ---- engine guards
	c.Rule("C03.engine-guards", "the engines and jump helpers keep their range guards (pc against the table lengths, jump-table index, basic-block membership)", 8)
	// each guard is a comparison that must occur among the tests of the function or of the package helpers it calls,
	// whichever way round it is written (polarity-free atoms) — given as the fragments one atom has to contain
	type guardPat struct {
		name  string
		parts []string
	}
	ereq := map[string][]guardPat{
		"Interpreter.SingleStepStateTransition":     {{"pc < |code|", []string{"len(", ".InstructionData)", " < ", "p1"}}},
		"Interpreter.SingleStepInvokeDecodedBlocks": {{"pc < |BlockAt|", []string{"len(", ".BlockAt)", " < "}}, {"InstrIdxAt[pc] ≥ 0", []string{".InstrIdxAt[", " < 0)"}}},
		"Program.preDecodeBlocks":                   {{"pc < |code| (outer)", []string{"u32(len(p0.InstructionData))", " < "}}, {"running pc < |code| inside a block", []string{"^(Σ(", ") < u32(len(p0.InstructionData)))"}}, {"valid opcode", []string{"PVM.IsValidOpcode("}}},
		"djump":                                     {{"a ≠ 0", []string{"(0 == p1)"}}, {"a ≤ 2·|j|", []string{"(2 * p2.Size)", " < p1"}}, {"a even", []string{"(p1 % 2)", " == 0)"}}},
		"branch":                                    {{"target starts a block", []string{"IsStartOfBasicBlock(p3, p1)"}}},
		"Bitmask.IsStartOfBasicBlock":               {{"addr < |bitmask|", []string{"(p1 < ", "len(p0)"}}},
		"Bitmask.IsStartOfInstruction":              {{"addr < |bitmask|", []string{"(p1 < len(p0))"}}, {"addr ≥ 0", []string{"(p1 < 0)"}}},
	}
	var fnames []string
	for n := range ereq {
		fnames = append(fnames, n)
	}
	sort.Strings(fnames)
	for _, n := range fnames {
		f := c.Fn("PVM", n)
		if f == nil {
			continue
		}
		// atoms of f and of the same-package functions it calls directly (in their own terms)
		atoms := map[string]bool{}
		collect := func(g *ssa.Function) {
			seen := map[ssa.Value]bool{}
			allInstrs(g, func(in ssa.Instruction) {
				if ifi, ok := in.(*ssa.If); ok {
					atomsOfCond(ifi.Cond, shapeOpts, nil, atoms, seen, 0)
				}
			})
		}
		collect(f)
		allInstrs(f, func(in ssa.Instruction) {
			if ci, ok := in.(ssa.CallInstruction); ok {
				if g := calleeFunc(ci); g != nil && len(g.Blocks) > 0 && g.Pkg == f.Pkg && g != f {
					collect(g)
				}
			}
		})
		for _, want := range ereq[n] {
			found := false
			for s := range atoms {
				all := true
				for _, p := range want.parts {
					if strings.HasPrefix(p, "^") {
						if !strings.HasPrefix(s, p[1:]) {
							all = false
						}
					} else if !strings.Contains(s, p) {
						all = false
					}
				}
				if all {
					found = true
				}
				// a's parity tested on its low bit instead of by remainder
				if want.name == "a even" && (strings.Contains(s, "(1 & p1)") || strings.Contains(s, "(p1 & 1)")) {
					found = true
				}
			}
			var list []string
			for s := range atoms {
				if len(s) < 120 {
					list = append(list, s)
				}
			}
			sort.Strings(list)
			if len(list) > 12 {
				list = list[:12]
			}
			c.Check(found, "C03.engine-guards", "PVM."+n+" · "+want.name, f.Pos(), "guard present", "range guard "+want.name+" ("+strings.Join(want.parts, "…")+") is missing from "+n+" (tests: "+strings.Join(list, " ; ")+")")
		}
	}

	// ---- explicit Go panics
	c.Rule("C03.no-go-panic", "no explicit panic() in package PVM outside the reviewed list (encoder/decoder failures on fixed-size values that cannot fail, unimplemented dead decoder)", 5)
	allowed := map[string]string{
		"PVM.Psi_A": "EncodeUint of a timeslot / service id / count cannot fail",
		"PVM.I":     "encoding fixed-size header fields and decoding a 4-byte hash prefix cannot fail",
		"PVM.decodeOneRegisterAndOneExtendedWidthImmediate": "dead: no opcode table entry or caller uses it",
		"PVM.getFetchConstantsData$1":                       "EncodeMany of protocol constants cannot fail",
		"PVM.Psi_I":                                         "encoding the core index cannot fail",
	}
	for _, f := range c.SrcFuncs("PVM") {
		allInstrs(f, func(in ssa.Instruction) {
			if p, ok := in.(*ssa.Panic); !ok || isRangeFuncGuard(p) {
				return
			}
			why, ok := allowed[funcKey(f)]
			c.Check(ok, "C03.no-go-panic", funcKey(f)+" · panic", in.Pos(), "reviewed: "+why, "explicit Go panic in "+funcKey(f)+" is not on the reviewed list (a guest- or blob-controlled condition must end in a PVM outcome, not a crash)")
		})
	}

	// ---- shared rules
	c.Rule("C03.unknown-id", "unknown host-call identifiers are routed to WHAT and every identifier-indexed table is bounds-guarded", 4)
	e.ruleUnknownID("C03.unknown-id")
	e.ruleOperationIndex("C03.unknown-id")
	c.Rule("C03.range-check-shape", "isReadable/isWriteable range tests cannot wrap", 8)
	e.ruleRangeCheckShape("C03.range-check-shape")
	c.Rule("C03.memory-guards", "no host call touches guest memory pages without a dominating range check (Memory.Read/Write dereference unmapped pages otherwise)", 28)
	e.ruleMemoryGuards("C03.memory-guards", "C03.memory-guards", e.funcs)
	c.Rule("C03.range-arith", "range-check operands are not produced by wrapping arithmetic on guest values", 60)
	e.ruleRangeArith("C03.range-arith")
	return "Crash-safety mechanisms for untrusted program bytes decided statically: the zero-extension invariant (engines and pre-decoder work on code followed by ≥26 zero octets; every decoder read is bounded by pc+padding through an interval evaluation of its index expression), the length guards of the blob loaders with dominance for DeBlobProgramCode's slices, the engines' and jump helpers' range guards, a closed reviewed list of explicit Go panics, and the host-call memory/identifier guards. Does not decide absence of every runtime panic in the 650 register-file index sites of the handlers (indices come from min(12,·) decoders, see C01) nor allocation amounts.",
		[]string{"skipLength parameters are ≤ 24 (skip() is clamped, checked)", "decoders cannot fail on zero-extended code, so the 0xFF 'no register' sentinel never reaches a handler", "subtraction inside max(0, ·) does not increase an upper bound"}
}

func constantInt64(k *types.Const) (int64, bool) {
	if k == nil {
		return 0, false
	}
	s := k.Val().ExactString()
	var v int64
	_, err := fmt.Sscan(s, &v)
	return v, err == nil
}

// blobSiteByPostcondition: an index/slice site the prover cannot decide
// locally is in range because its bound was produced by a reader called on
// the same slice, under that reader's success edge, and the reader proves
// "bound ≤ len(data)" at each of its successful returns. Returns the reason
// or "".
func blobSiteByPostcondition(f *ssa.Function, in ssa.Instruction) string {
	sl, ok := in.(*ssa.Slice)
	if !ok || sl.High != nil || sl.Low == nil {
		return ""
	}
	// the reader calls on this very slice value
	for _, ref := range *sl.X.Referrers() {
		call, ok := ref.(*ssa.Call)
		if !ok || call.Call.StaticCallee() == nil || len(call.Call.Args) == 0 || call.Call.Args[0] != sl.X {
			continue
		}
		g := call.Call.StaticCallee()
		if len(g.Blocks) == 0 || len(g.Params) == 0 {
			continue
		}
		nres := g.Signature.Results().Len()
		if nres < 2 {
			continue
		}
		// which quantity bounds the slice: a result of the call, or a constant not above a constant argument
		resIdx, argIdx := -1, -1
		if ex, isEx := stripConv(sl.Low).(*ssa.Extract); isEx && ex.Tuple == ssa.Value(call) && ex.Index < nres-1 {
			resIdx = ex.Index
		} else if k, isC := constInt(sl.Low); isC {
			for ai := 1; ai < len(call.Call.Args); ai++ {
				if ka, isCa := constInt(call.Call.Args[ai]); isCa && k <= ka && k >= 0 {
					argIdx = ai
				}
			}
		}
		if resIdx < 0 && argIdx < 0 {
			continue
		}
		// the site lies under the call's success edge (status == zero value)
		succ := condEdges(f, func(v ssa.Value) (bool, bool) {
			b, ok := v.(*ssa.BinOp)
			if !ok || (b.Op != token.EQL && b.Op != token.NEQ) {
				return false, false
			}
			isStatus := func(x ssa.Value) bool {
				ex, ok := x.(*ssa.Extract)
				return ok && ex.Tuple == ssa.Value(call) && ex.Index == nres-1
			}
			isZero := func(x ssa.Value) bool {
				k, ok := x.(*ssa.Const)
				if !ok {
					return false
				}
				if k.Value == nil {
					return true
				}
				n, isInt := constInt(k)
				return isInt && n == 0
			}
			if (isStatus(b.X) && isZero(b.Y)) || (isStatus(b.Y) && isZero(b.X)) {
				return true, b.Op == token.EQL
			}
			return false, false
		})
		if !guardedBy(f, in, succ) {
			continue
		}
		// the reader's postcondition, at every return that may report success
		bp := &boundsProver{fn: g}
		proven, rets := true, 0
		allInstrs(g, func(ri ssa.Instruction) {
			r, isR := ri.(*ssa.Return)
			if !isR {
				return
			}
			res := retResults(r)
			if len(res) != nres {
				return
			}
			if k, isC := res[nres-1].(*ssa.Const); isC {
				if n, isInt := constInt(k); k.Value != nil && (!isInt || n != 0) {
					return // a failure return
				}
			} else if !isErrorNilable(res[nres-1]) {
				// a computed status: may be success
			} else {
				return // a non-nil error value
			}
			rets++
			var bound lin
			if resIdx >= 0 {
				bound = bp.linOf(res[resIdx], 0)
			} else {
				bound = bp.linOf(g.Params[argIdx], 0)
			}
			goal := bp.lenOfBase(g.Params[0], 0).add(bound, -1)
			if !bp.prove(goal, bp.factsAt(r.Block()), 4) {
				proven = false
			}
		})
		if proven && rets > 0 {
			what := fmt.Sprintf("result #%d", resIdx)
			if resIdx < 0 {
				what = fmt.Sprintf("argument #%d", argIdx)
			}
			return fmt.Sprintf("bounded by %s of %s on its success edge; the reader proves it ≤ len(data) at its %d successful return(s)", what, funcKey(g), rets)
		}
	}
	return ""
}

// isErrorNilable: v is a non-constant value of an interface (error) type — a constructed error.
func isErrorNilable(v ssa.Value) bool {
	_, isIface := v.Type().Underlying().(*types.Interface)
	return isIface
}

// isMulOverflowHelper: g(a, b) returns (a*b low word, overflow flag) computed by bits.Mul64.
func isMulOverflowHelper(g *ssa.Function) bool {
	if g == nil || len(g.Blocks) != 1 || len(g.Params) != 2 || g.Signature.Results().Len() != 2 {
		return false
	}
	var mul *ssa.Call
	for _, in := range g.Blocks[0].Instrs {
		if call, ok := in.(*ssa.Call); ok && call.Call.StaticCallee() != nil && call.Call.StaticCallee().String() == "math/bits.Mul64" {
			if call.Call.Args[0] == ssa.Value(g.Params[0]) && call.Call.Args[1] == ssa.Value(g.Params[1]) || call.Call.Args[0] == ssa.Value(g.Params[1]) && call.Call.Args[1] == ssa.Value(g.Params[0]) {
				mul = call
			}
		}
	}
	if mul == nil {
		return false
	}
	ret, ok := g.Blocks[0].Instrs[len(g.Blocks[0].Instrs)-1].(*ssa.Return)
	if !ok || len(ret.Results) != 2 {
		return false
	}
	lo, isLo := ret.Results[0].(*ssa.Extract)
	if !isLo || lo.Tuple != ssa.Value(mul) || lo.Index != 1 {
		return false
	}
	bo, isB := ret.Results[1].(*ssa.BinOp)
	if !isB || bo.Op != token.NEQ {
		return false
	}
	hi, isHi := bo.X.(*ssa.Extract)
	k, isC := constInt(bo.Y)
	return isHi && hi.Tuple == ssa.Value(mul) && hi.Index == 0 && isC && k == 0
}

// constUpperBound: a constant K with v ≤ K on every path to `at` (from a dominating comparison of v itself with
// a constant, or from v's type when it was widened from a narrower unsigned type).
func constUpperBound(f *ssa.Function, at ssa.Instruction, v ssa.Value) (uint64, bool) {
	core := stripConv(v)
	if k, isC := constInt(core); isC && k >= 0 {
		return uint64(k), true
	}
	best, have := uint64(0), false
	if cv, isConv := v.(*ssa.Convert); isConv {
		if w, s, ok := bfWidth(cv.X.Type()); ok && !s && w < 64 {
			best, have = 1<<w-1, true
		}
		// a conversion of a value already bounded (the bound is small enough to survive any integer conversion)
		if k, ok := constUpperBound(f, at, cv.X); ok && k < 1<<7 && (!have || k < best) {
			if nonNegLoopValue(cv.X) {
				best, have = k, true
			}
		}
	}
	for _, b := range f.Blocks {
		ifi, ok := b.Instrs[len(b.Instrs)-1].(*ssa.If)
		if !ok {
			continue
		}
		bo, ok := ifi.Cond.(*ssa.BinOp)
		if !ok {
			continue
		}
		var k int64
		var isC, vLeft bool
		if stripConv(bo.X) == core {
			k, isC = constInt(bo.Y)
			vLeft = true
		} else if stripConv(bo.Y) == core {
			k, isC = constInt(bo.X)
		}
		if !isC || k < 0 {
			continue
		}
		// edges on which v ≤ bound
		type eb struct {
			succ  int
			bound uint64
		}
		var es []eb
		op := bo.Op
		if !vLeft { // K op v  ≡  v op' K
			op = map[token.Token]token.Token{token.LSS: token.GTR, token.GTR: token.LSS, token.LEQ: token.GEQ, token.GEQ: token.LEQ, token.EQL: token.EQL, token.NEQ: token.NEQ}[op]
		}
		switch op {
		case token.LSS:
			if k > 0 {
				es = append(es, eb{0, uint64(k) - 1})
			}
		case token.LEQ:
			es = append(es, eb{0, uint64(k)})
		case token.GTR:
			es = append(es, eb{1, uint64(k)})
		case token.GEQ:
			if k > 0 {
				es = append(es, eb{1, uint64(k) - 1})
			}
		case token.EQL:
			es = append(es, eb{0, uint64(k)})
		}
		for _, e := range es {
			if guardedByF(f, at, []edge{{b, e.succ}}) && (!have || e.bound < best) {
				best, have = e.bound, true
			}
		}
	}
	return best, have
}

// nonNegLoopValue: v is unsigned, a non-negative constant, or a counter that starts at a non-negative constant and only grows.
func nonNegLoopValue(v ssa.Value) bool {
	v = stripConv(v)
	if isUnsignedT(v.Type()) {
		return true
	}
	if k, ok := constInt(v); ok {
		return k >= 0
	}
	if p, ok := v.(*ssa.Phi); ok {
		for _, e := range p.Edges {
			if k, isC := constInt(e); isC && k >= 0 {
				continue
			}
			if b, isB := stripConv(e).(*ssa.BinOp); isB && b.Op == token.ADD && stripConv(b.X) == ssa.Value(p) {
				if k, isC := constInt(b.Y); isC && k >= 0 {
					continue
				}
			}
			return false
		}
		return true
	}
	return false
}
