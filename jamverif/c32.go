package main

import (
	"fmt"
	"go/types"
	"os"
	"strings"

	"golang.org/x/tools/go/ssa"
)

const wpPkg = "internal/work_package"

func checkC32(c *Ctx) (string, []string) {
	c.Rule("C32.digest-provenance", "every field of the work digest returned by work_package.C derives from the source term GP eq. 14.8 assigns to it (service, code hash, Blake2b of payload, accumulate gas limit, result, gas used, |imports|, |extrinsics|, Σ extrinsic lengths accumulated in ≥32 bits, export count)", 10)
	c.Rule("C32.spec-provenance", "every field of the package specification returned by work_package.A derives from its GP eq. 14.16 source (hash parameter, |bundle| of the unmodified bundle parameter, |exports|, M(exports), erasure root of the same bundle and exports)", 5)
	c.Rule("C32.refine-accounting", "WorkReportCompute hands I the running sum of previous result sizes (Σ len(r.Data)), digests item j with C(item_j, I_j result, I_j gas), and I offsets exports by Σ_{k<j} export counts and bounds |o|+Σ+|r| by W_R", 5)
	fC := c.Fn(wpPkg, "C")
	fA := c.Fn(wpPkg, "A")
	fW := c.Fn(wpPkg, "WorkReportCompute")
	fI := c.Fn(wpPkg, "I")
	if fC == nil || fA == nil || fW == nil || fI == nil {
		return "", nil
	}
	dump := os.Getenv("JAMVERIF_DUMP") != ""
	gC := returnShapes(fC)
	gA := returnShapes(fA)
	if dump {
		dumpShapes("C", gC)
		dumpShapes("A", gA)
		dumpShapes("I", returnShapes(fI))
		dumpShapes("W", returnShapes(fW))
	}
	c.checkShapes("C32.digest-provenance", "internal/work_package.C", fC, gC, map[string][]string{
		"ret.ServiceID":                 {"p0.Service"},
		"ret.CodeHash":                  {"p0.CodeHash"},
		"ret.PayloadHash":               {"internal/utilities/hash.Blake2bHash(p0.Payload)"},
		"ret.AccumulateGas":             {"p0.AccumulateGasLimit"},
		"ret.Result":                    {"p1"},
		"ret.RefineLoad.GasUsed":        {"p2"},
		"ret.RefineLoad.Imports":        {"u16(len(p0.ImportSegments))"},
		"ret.RefineLoad.ExtrinsicCount": {"u16(len(p0.Extrinsic))"},
		"ret.RefineLoad.ExtrinsicSize":  {"Σ(0; p0.Extrinsic[*].Len)", "Σ(0; u32(p0.Extrinsic[*].Len))"},
		"ret.RefineLoad.Exports":        {"p0.ExportCount"},
	})
	c.checkShapes("C32.spec-provenance", "internal/work_package.A", fA, gA, map[string][]string{
		"ret#0.Hash":         {"p0"},
		"ret#0.Length":       {"u32(len(p1))"},
		"ret#0.ExportsCount": {"u16(len(p2))"},
		"ret#0.ExportsRoot":  {"internal/utilities/merkle_tree.M(⊕(make([]internal/types.ByteSequence, 0); [p2[*][:]][:]), internal/utilities/hash.Blake2bHash)"},
		"ret#0.ErasureRoot":  {"internal/work_package.ComputeErasureRoot(p1, p2)#0"},
	})
	// the outcome of one item's refinement (GP 14.11), as a table over the three tests in their order of precedence:
	// oversize first, then a wrong number of exports, then the refinement's own failure
	c.Rule("C32.refine-outcome", "I, followed for the 8 valuations of (report oversize, export count differs, refinement failed): the digest result is report-oversize if the first holds, else bad-exports if the second holds, else the refinement's own result; exports are handed on only when none holds", 8)
	{
		kOversize, kBad := "", ""
		if k, ok := c.Obj("internal/types", "WorkExecResultReportOversize").(*types.Const); ok {
			kOversize = k.Val().ExactString()
		}
		if k, ok := c.Obj("internal/types", "WorkExecResultBadExports").(*types.Const); ok {
			kBad = k.Val().ExactString()
		}
		for m := 0; m < 8; m++ {
			over, mism, fail := m&1 == 1, m&2 == 2, m&4 == 4
			b2i := func(b bool) (int64, bool) {
				if b {
					return 1, true
				}
				return 0, true
			}
			var ret *ssa.Return
			var choice map[*ssa.Phi]ssa.Value
			lastType := ""
			_, ok := runWithAtomsChoice(fI, shapeOpts, func(s string) (int64, bool) {
				switch {
				case s == "p1":
					return 0, true
				case strings.Contains(s, "49152") || strings.Contains(s, "WorkReportOutputBlobsMaximumSize"):
					if strings.Contains(s, " <= ") && strings.HasPrefix(s, "((") { // sum <= limit
						return b2i(!over)
					}
					return b2i(over)
				case strings.Contains(s, "ExportCount") && strings.Contains(s, "ExportSegment"):
					if strings.Contains(s, " == ") {
						return b2i(!mism)
					}
					return b2i(mism)
				case strings.Contains(s, ".WorkResult") && strings.Contains(s, "\"ok\""):
					if strings.Contains(s, " == ") {
						return b2i(!fail)
					}
					return b2i(fail)
				}
				return 0, false
			}, func(in ssa.Instruction, ch map[*ssa.Phi]ssa.Value) {
				if r, isR := in.(*ssa.Return); isR {
					ret, choice = r, ch
				}
				// the result record may be assembled in a variable: the last Type written on the way counts
				if st, isSt := in.(*ssa.Store); isSt {
					if fa, isFA := st.Addr.(*ssa.FieldAddr); isFA && fieldName(fa.X.Type(), fa.Field) == "Type" && hasSuffixType(derefType(fa.X.Type()), "types.WorkExecResult") {
						lastType = exprStr(resolveChoice(st.Val, ch), shapeOpts)
					} else if hasSuffixType(st.Val.Type(), "types.WorkExecResult") {
						if flds := structLiteralFields(st.Val); flds != nil && flds["Type"] != nil {
							lastType = exprStr(resolveChoice(flds["Type"], ch), shapeOpts)
						}
					}
				}
			})
			key := fmt.Sprintf("internal/work_package.I · oversize=%v exports differ=%v refinement failed=%v", over, mism, fail)
			if !ok || ret == nil || len(ret.Results) != 3 {
				c.Bad("C32.refine-outcome", key, fI.Pos(), "the outcome is not decided by the three tests (conditions: %s)", strings.Join(condShapes(fI), " ; "))
				continue
			}
			typ := "?"
			if lastType != "" {
				typ = lastType
			} else if flds := structLiteralFields(ret.Results[0]); flds != nil && flds["Type"] != nil {
				typ = exprStr(resolveChoice(flds["Type"], choice), shapeOpts)
			}
			want := ""
			switch {
			case over:
				want = kOversize
			case mism:
				want = kBad
			}
			okType := typ == want || want == "" && strings.HasSuffix(typ, ".WorkResult")
			exp := exprStr(resolveChoice(ret.Results[2], choice), shapeOpts)
			okExp := (!over && !mism && !fail) == strings.HasSuffix(exp, ".ExportSegment")
			c.Check(okType && okExp, "C32.refine-outcome", key, ret.Pos(), "result "+typ, fmt.Sprintf("the digest result is %s and the exports handed on are %s; GP 14.11 gives %s", typ, abbr(exp), map[bool]string{true: "the refinement's own result", false: want}[want == ""]))
		}
	}
	// refine accounting
	isCall := func(name string) func(ssa.CallInstruction) bool {
		o := c.Obj(wpPkg, name)
		return func(ci ssa.CallInstruction) bool { return isCallTo(ci, o) }
	}
	got := map[string][]string{
		"I.rSum":   callArgShapes(fW, isCall("I"), 7),
		"I.index":  callArgShapes(fW, isCall("I"), 1),
		"C.item":   callArgShapes(fW, isCall("C"), 0),
		"C.result": callArgShapes(fW, isCall("C"), 1),
		"C.gas":    callArgShapes(fW, isCall("C"), 2),
		"A.bundle": callArgShapes(fW, isCall("A"), 1),
		"A.hash":   callArgShapes(fW, isCall("A"), 0),
	}
	if dump {
		dumpShapes("W.args", got)
	}
	iCall := "internal/work_package.I(*p0, *, p2#?, p5, p4, p6, p9, cyc, p1)"
	_ = iCall
	c.checkShapeContains("C32.refine-accounting", "internal/work_package.WorkReportCompute", fW, got, map[string][]string{
		"I.rSum":   {"Σ(0; len(internal/work_package.I(", ".Data))"},
		"I.index":  {"*"},
		"C.item":   {"p0.Items[*]"},
		"C.result": {"internal/work_package.I(", ")#0"},
		"C.gas":    {"internal/work_package.I(", ")#1"},
		"A.bundle": {"p7"},
		"A.hash":   {"p8"},
	})
	return "Provenance of every field of the work digest (C), of the package specification (A) and of the refine-output accounting (WorkReportCompute/I), decided by backward slicing of SSA values into canonical source terms and comparison with the GP 14.8/14.16 table. Insensitive to temporaries, local names and statement order. Does not decide PVM/erasure/merkle results.",
		[]string{"canonical expression rendering treats conversions between same-width named types as transparent", "calls are uninterpreted (ComputeErasureRoot, merkle_tree.M)"}
}
