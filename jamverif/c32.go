package main

import (
	"os"

	"golang.org/x/tools/go/ssa"
)

const wpPkg = "internal/work_package"

func checkC32(c *Ctx) (string, []string) {
	c.Rule("C32.digest-provenance", "every field of the work digest returned by work_package.C derives from the source term GP eq. 14.8 assigns to it (service, code hash, Blake2b of payload, accumulate gas limit, result, gas used, |imports|, |extrinsics|, Σ extrinsic lengths accumulated in ≥32 bits, export count)", 10)
	c.Rule("C32.spec-provenance", "every field of the package specification returned by work_package.A derives from its GP eq. 14.16 source (hash parameter, |bundle| of the unmodified bundle parameter, |exports|, M(exports), erasure root of the same bundle and exports)", 5)
	c.Rule("C32.refine-accounting", "WorkReportCompute hands I the running sum of previous result sizes (Σ len(r.Data)), digests item j with C(item_j, I_j result, I_j gas), and I offsets exports by Σ_{k<j} export counts and bounds |o|+Σ+|r| by W_R", 5)
	fC := c.Fn(wpPkg, "C")
	fA := c.Fn(wpPkg, "A")
	fW := c.Fn(wpPkg, "WorkReportCompute")
	fI := c.Fn(wpPkg, "I")
	if fC == nil || fA == nil || fW == nil || fI == nil {
		return "", nil
	}
	dump := os.Getenv("JAMVERIF_DUMP") != ""
	gC := returnShapes(fC)
	gA := returnShapes(fA)
	if dump {
		dumpShapes("C", gC)
		dumpShapes("A", gA)
		dumpShapes("I", returnShapes(fI))
		dumpShapes("W", returnShapes(fW))
	}
	c.checkShapes("C32.digest-provenance", "internal/work_package.C", fC, gC, map[string][]string{
		"ret.ServiceID":                 {"p0.Service"},
		"ret.CodeHash":                  {"p0.CodeHash"},
		"ret.PayloadHash":               {"internal/utilities/hash.Blake2bHash(p0.Payload)"},
		"ret.AccumulateGas":             {"p0.AccumulateGasLimit"},
		"ret.Result":                    {"p1"},
		"ret.RefineLoad.GasUsed":        {"p2"},
		"ret.RefineLoad.Imports":        {"u16(len(p0.ImportSegments))"},
		"ret.RefineLoad.ExtrinsicCount": {"u16(len(p0.Extrinsic))"},
		"ret.RefineLoad.ExtrinsicSize":  {"Σ(0; p0.Extrinsic[*].Len)", "Σ(0; u32(p0.Extrinsic[*].Len))"},
		"ret.RefineLoad.Exports":        {"p0.ExportCount"},
	})
	c.checkShapes("C32.spec-provenance", "internal/work_package.A", fA, gA, map[string][]string{
		"ret#0.Hash":         {"p0"},
		"ret#0.Length":       {"u32(len(p1))"},
		"ret#0.ExportsCount": {"u16(len(p2))"},
		"ret#0.ExportsRoot":  {"internal/utilities/merkle_tree.M(⊕(make([]internal/types.ByteSequence, 0); [p2[*][:]][:]), internal/utilities/hash.Blake2bHash)"},
		"ret#0.ErasureRoot":  {"internal/work_package.ComputeErasureRoot(p1, p2)#0"},
	})
	// refine accounting
	isCall := func(name string) func(ssa.CallInstruction) bool {
		o := c.Obj(wpPkg, name)
		return func(ci ssa.CallInstruction) bool { return isCallTo(ci, o) }
	}
	got := map[string][]string{
		"I.rSum":   callArgShapes(fW, isCall("I"), 7),
		"I.index":  callArgShapes(fW, isCall("I"), 1),
		"C.item":   callArgShapes(fW, isCall("C"), 0),
		"C.result": callArgShapes(fW, isCall("C"), 1),
		"C.gas":    callArgShapes(fW, isCall("C"), 2),
		"A.bundle": callArgShapes(fW, isCall("A"), 1),
		"A.hash":   callArgShapes(fW, isCall("A"), 0),
	}
	if dump {
		dumpShapes("W.args", got)
	}
	iCall := "internal/work_package.I(*p0, *, p2#?, p5, p4, p6, p9, cyc, p1)"
	_ = iCall
	c.checkShapeContains("C32.refine-accounting", "internal/work_package.WorkReportCompute", fW, got, map[string][]string{
		"I.rSum":   {"Σ(0; len(internal/work_package.I(", ".Data))"},
		"I.index":  {"*"},
		"C.item":   {"p0.Items[*]"},
		"C.result": {"internal/work_package.I(", ")#0"},
		"C.gas":    {"internal/work_package.I(", ")#1"},
		"A.bundle": {"p7"},
		"A.hash":   {"p8"},
	})
	return "Provenance of every field of the work digest (C), of the package specification (A) and of the refine-output accounting (WorkReportCompute/I), decided by backward slicing of SSA values into canonical source terms and comparison with the GP 14.8/14.16 table. Insensitive to temporaries, local names and statement order. Does not decide PVM/erasure/merkle results.",
		[]string{"canonical expression rendering treats conversions between same-width named types as transparent", "calls are uninterpreted (ComputeErasureRoot, merkle_tree.M)"}
}
