package main

import (
	"fmt"
	"go/token"
	"go/types"
	"os"
	"strings"

	"golang.org/x/tools/go/ssa"
)

type natImpl struct {
	rel, enc, dec string
}

var natImpls = []natImpl{
	{"internal/types", "Encoder.EncodeUint", "Decoder.DecodeUint"},
	{"internal/utilities", "SerializeU64", "DeserializeU64"},
	{"PVM", "", "ReadUintVariable"},
	{"internal/telemetry", "EncodeNatural", "Decoder.ReadNatural"},
	{"internal/fuzz", "compactEncode", "compactDecode"},
}

func checkC12(c *Ctx) (string, []string) {
	dump := os.Getenv("JAMVERIF_DUMP") != ""
	c.Rule("C12.truncation", "every index/slice of the input bytes in the natural-number decoders is proven inside len(data) by the comparisons that dominate it (linear bounds prover)", 20)
	for _, ni := range natImpls {
		f := c.Fn(ni.rel, ni.dec)
		if f == nil {
			continue
		}
		if dump {
			dumpConds(f)
		}
		for _, s := range checkBounds(f) {
			key := funcKey(f) + " · " + s.desc
			if dump {
				fmt.Printf("BOUNDS %v %s  goal=%s\n", s.ok, key, s.goal)
			}
			if s.ok {
				c.OK("C12.truncation", key, s.in.Pos(), "in bounds by dominating comparisons")
			} else {
				c.Bad("C12.truncation", key, s.in.Pos(), "no dominating comparison proves this access inside the input (residual goal %s >= 0)", s.goal)
			}
		}
	}
	// the protocol codec's stream path: decodeUintFromReader must not accept a short read of the remainder bytes
	if f := c.Fn("internal/types", "Decoder.decodeUintFromReader"); f != nil {
		n := 0
		allInstrs(f, func(in ssa.Instruction) {
			call, ok := in.(*ssa.Call)
			if !ok {
				return
			}
			sc := call.Call.StaticCallee()
			if sc == nil || !(sc.String() == "(*bytes.Reader).Read" || sc.String() == "io.ReadFull") {
				return
			}
			n++
			okCount := sc.String() == "io.ReadFull"
			for _, r := range *call.Referrers() {
				if ex, ok := r.(*ssa.Extract); ok && ex.Index == 0 {
					for _, r2 := range *ex.Referrers() {
						if bo, ok := r2.(*ssa.BinOp); ok && (bo.Op == token.NEQ || bo.Op == token.EQL || bo.Op == token.LSS) {
							okCount = true
						}
					}
				}
			}
			c.Check(okCount, "C12.truncation", funcKey(f)+" · remainder read", call.Pos(), "count of remainder bytes read is compared with the number required (or io.ReadFull)", "the number of remainder bytes actually read is ignored: a natural truncated inside its remainder is zero-padded and accepted")
		})
		if n == 0 {
			c.Bad("C12.truncation", funcKey(f)+" · remainder read", f.Pos(), "no remainder read found")
		}
		target := c.Obj("internal/types", "Decoder.DecodeUint")
		c.Check(len(callsIn(f, target)) > 0, "C12.truncation", funcKey(f)+" · delegates to DecodeUint", f.Pos(), "assembled bytes are decoded by DecodeUint", "does not delegate to DecodeUint")
	}
	c.Rule("C12.minimality", "in each of the five decoders every successful return of a value assembled from more than one input byte is reached only through the passing edge of a lower-bound comparison on that value: v >= 2^(7·l) for the l-byte form (bound = 1 << 7·l with l a plain variable) and v >= 2^56 for the 9-byte form", 10)
	for _, ni := range natImpls {
		f := c.Fn(ni.rel, ni.dec)
		if f == nil {
			continue
		}
		c12Minimality(c, f)
	}
	c12Encoders(c)
	// sibling agreement: the PVM reader is the protocol decoder with a different error channel
	c.Rule("C12.siblings", "PVM.ReadUintVariable and types.Decoder.DecodeUint are the same decoder: after renaming the data parameter, their sets of branch conditions and the expressions of the values they return are identical (a fast path, mask or bound changed in one copy only is a difference)", 2)
	{
		a := c.Fn("internal/types", "Decoder.DecodeUint")
		b := c.Fn("PVM", "ReadUintVariable")
		if a != nil && b != nil {
			oa := shapeOpts
			oa.swap = [2]int{0, 1}
			conds := func(f *ssa.Function, o exprOpts) []string {
				set := map[string]bool{}
				allInstrs(f, func(in ssa.Instruction) {
					if i, ok := in.(*ssa.If); ok {
						set[exprStr(i.Cond, o)] = true
					}
				})
				return keysOf(set)
			}
			vals := func(f *ssa.Function, o exprOpts) []string {
				set := map[string]bool{}
				allInstrs(f, func(in ssa.Instruction) {
					if r, ok := in.(*ssa.Return); ok {
						if rr := retResults(r); len(rr) > 0 {
							set[exprStr(rr[0], o)] = true
						}
					}
				})
				return keysOf(set)
			}
			ca, cb := conds(a, oa), conds(b, shapeOpts)
			c.Check(strings.Join(ca, " ; ") == strings.Join(cb, " ; "), "C12.siblings", "types.DecodeUint ~ PVM.ReadUintVariable · conditions", b.Pos(), fmt.Sprintf("%d identical branch conditions", len(ca)), fmt.Sprintf("branch conditions differ: only in DecodeUint %v ;; only in ReadUintVariable %v", abbrAll(diffStrings(ca, cb)), abbrAll(diffStrings(cb, ca))))
			va, vb := vals(a, oa), vals(b, shapeOpts)
			c.Check(strings.Join(va, " ; ") == strings.Join(vb, " ; "), "C12.siblings", "types.DecodeUint ~ PVM.ReadUintVariable · values", b.Pos(), fmt.Sprintf("%d identical returned value expressions", len(va)), fmt.Sprintf("returned values differ: only in DecodeUint %v ;; only in ReadUintVariable %v", abbrAll(diffStrings(va, vb)), abbrAll(diffStrings(vb, va))))
		}
	}
	return "Natural-number codec mechanisms decided statically over the five implementations (protocol codec, legacy serializer, PVM reader, telemetry, fuzz): every index/slice of the input in the decoders is proven in bounds by a linear-arithmetic argument from the dominating length comparisons (truncated input cannot be read past its end, and is rejected by those comparisons); every multi-byte success return is guarded by the minimality lower bound (2^(7l), 2^56 for the 0xFF form); the encoders select the 9-byte form exactly from 2^56 (explicit threshold, or a search loop over l = 0..7 with the range test 2^(7l) <= x < 2^(7(l+1))) and build the prefix as 256 - 2^(8-l) + floor(x / 2^(8l)).",
		[]string{"go/ssa; linear bounds prover (dominating comparisons, rotated-loop phi facts, field-load versions, pure-getter inlining)", "not decided: bijection on all 2^64 values, agreement of the emitted remainder bytes (little-endian order) beyond the shared helper calls"}
}

// successReturn classifies a return of decoder f: (value, isSuccess).
func c12Success(f *ssa.Function, r *ssa.Return) (ssa.Value, bool) {
	res := retResults(r)
	if len(res) < 2 {
		return nil, false
	}
	last := res[len(res)-1]
	switch {
	case types.Identical(last.Type(), types.Universe.Lookup("error").Type()):
		return res[0], !isErrorReturn(f, r)
	default:
		// (value, consumed int) or (value, consumed, ExitReason)
		if len(res) == 3 {
			k, ok := constInt(res[2])
			return res[0], ok && k == 0
		}
		k, ok := constInt(res[1])
		return res[0], !(ok && k == 0)
	}
}

// byteOrigin: the value is a conversion/masking of a single input byte.
func byteOrigin(v ssa.Value, d int) bool {
	if d > 8 {
		return false
	}
	if _, ok := v.(*ssa.Const); ok {
		return true
	}
	if b, ok := v.Type().Underlying().(*types.Basic); ok && (b.Kind() == types.Uint8) {
		return true
	}
	switch x := v.(type) {
	case *ssa.Convert:
		return byteOrigin(x.X, d+1)
	case *ssa.ChangeType:
		return byteOrigin(x.X, d+1)
	}
	return false
}

func c12Minimality(c *Ctx, f *ssa.Function) {
	// lower-bound edges per compared value
	type lb struct {
		e     edge
		bound ssa.Value
	}
	lbs := map[ssa.Value][]lb{}
	for _, b := range f.Blocks {
		ifi, ok := b.Instrs[len(b.Instrs)-1].(*ssa.If)
		if !ok {
			continue
		}
		cond := ifi.Cond
		pol := true
		for {
			if u, ok := cond.(*ssa.UnOp); ok && u.Op == token.NOT {
				cond, pol = u.X, !pol
				continue
			}
			break
		}
		bo, ok := cond.(*ssa.BinOp)
		if !ok {
			continue
		}
		var v, bound ssa.Value
		passTrue := false
		switch bo.Op {
		case token.LSS: // v < L  → pass on false ; L < v → pass on true (strict, still a lower bound)
			v, bound, passTrue = bo.X, bo.Y, false
		case token.GEQ: // v >= L → pass on true
			v, bound, passTrue = bo.X, bo.Y, true
		case token.LEQ: // L <= v → pass on true
			v, bound, passTrue = bo.Y, bo.X, true
		case token.GTR: // L > v → pass on false
			v, bound, passTrue = bo.Y, bo.X, false
		default:
			continue
		}
		if !pol {
			passTrue = !passTrue
		}
		succ := 1
		if passTrue {
			succ = 0
		}
		lbs[stripConv(v)] = append(lbs[stripConv(v)], lb{edge{b, succ}, bound})
	}
	boundKind := func(b ssa.Value) string {
		b = stripConv(b)
		if k, ok := constInt(b); ok {
			if uint64(k) == uint64(1)<<56 {
				return "2^56"
			}
			return fmt.Sprintf("const %d", k)
		}
		if sh, ok := b.(*ssa.BinOp); ok && sh.Op == token.SHL {
			if one, ok := constInt(sh.X); ok && one == 1 {
				if m, ok := stripConv(sh.Y).(*ssa.BinOp); ok && m.Op == token.MUL {
					var other ssa.Value
					if k, ok := constInt(m.X); ok && k == 7 {
						other = m.Y
					} else if k, ok := constInt(m.Y); ok && k == 7 {
						other = m.X
					}
					if other != nil {
						if _, isBin := stripConv(other).(*ssa.BinOp); !isBin {
							return "2^(7l)"
						}
						return "2^(7·(" + exprStr(other, exprOpts{}) + "))"
					}
				}
			}
		}
		return exprStr(b, exprOpts{})
	}
	n := 0
	allInstrs(f, func(in ssa.Instruction) {
		r, ok := in.(*ssa.Return)
		if !ok {
			return
		}
		v, succ := c12Success(f, r)
		if !succ || v == nil || byteOrigin(v, 0) {
			return
		}
		n++
		key := fmt.Sprintf("%s · success return #%d", funcKey(f), n)
		cands := []ssa.Value{stripConv(v)}
		if p, ok := stripConv(v).(*ssa.Phi); ok {
			for _, e := range p.Edges {
				cands = append(cands, stripConv(e))
			}
		}
		var kinds []string
		guarded := false
		for _, cv := range cands {
			for _, l := range lbs[cv] {
				k := boundKind(l.bound)
				if guardedByPhi(f, r, []edge{l.e}) {
					kinds = append(kinds, k)
					if k == "2^56" || k == "2^(7l)" {
						guarded = true
					}
				}
			}
		}
		if guarded {
			c.OK("C12.minimality", key, r.Pos(), "guarded by lower bound %v", kinds)
		} else if len(kinds) > 0 {
			c.Bad("C12.minimality", key, r.Pos(), "the only lower bounds guarding this multi-byte result are %v, not 2^(7l) / 2^56: over-long encodings are accepted", kinds)
		} else {
			c.Bad("C12.minimality", key, r.Pos(), "a value assembled from several input bytes (%s) is returned without any lower-bound check: non-minimal encodings are accepted", abbr(exprStr(v, shapeOpts)))
		}
	})
}

// c12Encoders: threshold/search-range/prefix agreement of the four encoders.
func c12Encoders(c *Ctx) {
	c.Rule("C12.encoders", "each encoder emits the 9-byte form exactly for x >= 2^56: either an explicit comparison with 1<<56, or a search loop whose index runs over exactly 0..7 with the class test 2^(7l) <= x < 2^(7(l+1)); the prefix byte is 256 - 2^(8-l) + x / 2^(8l)", 8)
	for _, ni := range natImpls {
		if ni.enc == "" {
			continue
		}
		f := c.Fn(ni.rel, ni.enc)
		if f == nil {
			continue
		}
		key := funcKey(f)
		// explicit threshold?
		explicit := false
		for _, b := range f.Blocks {
			if ifi, ok := b.Instrs[len(b.Instrs)-1].(*ssa.If); ok {
				if bo, ok := ifi.Cond.(*ssa.BinOp); ok && (bo.Op == token.GEQ || bo.Op == token.LSS) {
					if k, ok := constInt(bo.Y); ok && uint64(k) == uint64(1)<<56 {
						if _, isParam := stripConv(bo.X).(*ssa.Parameter); isParam {
							explicit = true
						}
					}
				}
			}
		}
		// search loop: phi index init 0, step +1, continue condition i <= 7 / i < 8
		loopMax := int64(-1)
		var classPhi *ssa.Phi
		allInstrs(f, func(in ssa.Instruction) {
			p, ok := in.(*ssa.Phi)
			if !ok || !isIntegerT(p.Type()) || len(p.Edges) != 2 {
				return
			}
			init, okI := constInt(p.Edges[0])
			if !okI || init != 0 {
				return
			}
			step, ok := stripConv(p.Edges[1]).(*ssa.BinOp)
			if !ok || step.Op != token.ADD || stripConv(step.X) != ssa.Value(p) {
				return
			}
			if k, ok := constInt(step.Y); !ok || k != 1 {
				return
			}
			// the loop header condition on p; the class loop is the one whose body tests lower <= x
			for _, ref := range *p.Referrers() {
				bo, ok := ref.(*ssa.BinOp)
				if !ok || stripConv(bo.X) != ssa.Value(p) {
					continue
				}
				k, ok := constInt(bo.Y)
				if !ok {
					continue
				}
				usedInIf := false
				for _, r2 := range *bo.Referrers() {
					if _, ok := r2.(*ssa.If); ok {
						usedInIf = true
					}
				}
				if !usedInIf {
					continue
				}
				max := int64(-1)
				if bo.Op == token.LEQ {
					max = k
				} else if bo.Op == token.LSS {
					max = k - 1
				}
				// is this the class-search loop? its index feeds a shift amount 7*index
				feeds7 := false
				var walk func(v ssa.Value, d int)
				walk = func(v ssa.Value, d int) {
					if d > 4 || feeds7 {
						return
					}
					for _, r3 := range *v.Referrers() {
						if m, ok := r3.(*ssa.BinOp); ok {
							if m.Op == token.MUL {
								if k7, ok := constInt(m.X); ok && k7 == 7 {
									feeds7 = true
								}
								if k7, ok := constInt(m.Y); ok && k7 == 7 {
									feeds7 = true
								}
							}
							if m.Op == token.ADD {
								walk(m, d+1)
							}
						}
						if cv, ok := r3.(*ssa.Convert); ok {
							walk(cv, d+1)
						}
					}
				}
				walk(p, 0)
				if feeds7 && max >= 0 {
					loopMax = max
					classPhi = p
				}
			}
		})
		switch {
		case explicit:
			c.OK("C12.encoders", key+" · 9-byte threshold", f.Pos(), "explicit comparison of the value with 1<<56")
		case loopMax == 7:
			c.OK("C12.encoders", key+" · 9-byte threshold", classPhi.Pos(), "class search runs l = 0..7, so the fallback is taken exactly for x >= 2^56")
		case loopMax >= 0:
			c.Bad("C12.encoders", key+" · 9-byte threshold", classPhi.Pos(), "class search runs l = 0..%d instead of 0..7: values in [2^%d, 2^56) fall through to the 9-byte form (non-minimal, differs from the other encoders)", loopMax, 7*(loopMax+1))
		default:
			c.Unknown("C12.encoders", key+" · 9-byte threshold", f.Pos(), "neither an explicit 2^56 comparison nor a class-search loop was recognised")
		}
		// prefix formula: some value converted to byte whose shape is 256 - (1 << (8 - l)) + x / (1 << (8*l))
		found := false
		var shapes []string
		allInstrs(f, func(in ssa.Instruction) {
			cv, ok := in.(*ssa.Convert)
			if !ok {
				return
			}
			if b, ok := cv.Type().Underlying().(*types.Basic); !ok || b.Kind() != types.Uint8 {
				return
			}
			s := exprStr(cv.X, exprOpts{})
			if strings.Contains(s, "<<") && strings.Contains(s, "/") {
				shapes = append(shapes, s)
				if prefixShapeOK(cv.X) {
					found = true
				}
			}
		})
		if found {
			c.OK("C12.encoders", key+" · prefix byte", f.Pos(), "prefix = 256 - 2^(8-l) + x / 2^(8l)")
		} else {
			c.Bad("C12.encoders", key+" · prefix byte", f.Pos(), "no byte-converted expression of the form 256 - (1 << (8-l)) + x/(1 << (8l)) found; candidates: %v", shapes)
		}
	}
}

// prefixShapeOK matches  (256 - (1 << (8 - l))) + (x / (1 << (8*l)))  up to
// commutativity, conversions and the spelling 1<<8 for 256.
func prefixShapeOK(v ssa.Value) bool {
	v = stripConv(v)
	add, ok := v.(*ssa.BinOp)
	if !ok || add.Op != token.ADD {
		return false
	}
	isBase := func(a ssa.Value) bool {
		s, ok := stripConv(a).(*ssa.BinOp)
		if !ok || s.Op != token.SUB {
			return false
		}
		k, ok := constInt(s.X)
		if !ok || k != 256 {
			return false
		}
		sh, ok := stripConv(s.Y).(*ssa.BinOp)
		if !ok || sh.Op != token.SHL {
			return false
		}
		if one, ok := constInt(sh.X); !ok || one != 1 {
			return false
		}
		d, ok := stripConv(sh.Y).(*ssa.BinOp)
		if !ok || d.Op != token.SUB {
			return false
		}
		k8, ok := constInt(d.X)
		return ok && k8 == 8
	}
	isFloor := func(a ssa.Value) bool {
		a = stripConv(a)
		q, ok := a.(*ssa.BinOp)
		if !ok || q.Op != token.QUO {
			return false
		}
		den := stripConv(q.Y)
		if local := resolveLocal(den); local != nil {
			den = local
		}
		sh, ok := den.(*ssa.BinOp)
		if !ok || sh.Op != token.SHL {
			return false
		}
		if one, ok := constInt(sh.X); !ok || one != 1 {
			return false
		}
		m, ok := stripConv(sh.Y).(*ssa.BinOp)
		if !ok || m.Op != token.MUL {
			return false
		}
		k1, ok1 := constInt(m.X)
		k2, ok2 := constInt(m.Y)
		return (ok1 && k1 == 8) || (ok2 && k2 == 8)
	}
	return (isBase(add.X) && isFloor(add.Y)) || (isBase(add.Y) && isFloor(add.X))
}

func dumpConds(f *ssa.Function) {
	for _, s := range condShapes(f) {
		fmt.Printf("COND %s | %s\n", funcKey(f), s)
	}
}

func diffStrings(a, b []string) []string {
	in := map[string]bool{}
	for _, x := range b {
		in[x] = true
	}
	var out []string
	for _, x := range a {
		if !in[x] {
			out = append(out, x)
		}
	}
	return out
}
