package main

import (
	"fmt"
	"go/token"
	"go/types"
	"os"
	"strings"

	"golang.org/x/tools/go/ssa"
)

type natImpl struct {
	rel, enc, dec string
}

var natImpls = []natImpl{
	{"internal/types", "Encoder.EncodeUint", "Decoder.DecodeUint"},
	{"internal/utilities", "SerializeU64", "DeserializeU64"},
	{"PVM", "", "ReadUintVariable"},
	{"internal/telemetry", "EncodeNatural", "Decoder.ReadNatural"},
	{"internal/fuzz", "compactEncode", "compactDecode"},
}

func checkC12(c *Ctx) (string, []string) {
	dump := os.Getenv("JAMVERIF_DUMP") != ""
	c.Rule("C12.truncation", "every index/slice of the input bytes in the natural-number decoders is proven inside len(data) by the comparisons that dominate it (linear bounds prover)", 20)
	for _, ni := range natImpls {
		f := c.Fn(ni.rel, ni.dec)
		if f == nil {
			continue
		}
		if dump {
			dumpConds(f)
		}
		for _, s := range checkBounds(f) {
			key := funcKey(f) + " · " + s.desc
			if dump {
				fmt.Printf("BOUNDS %v %s  goal=%s\n", s.ok, key, s.goal)
			}
			if s.ok {
				c.OK("C12.truncation", key, s.in.Pos(), "in bounds by dominating comparisons")
			} else {
				c.Bad("C12.truncation", key, s.in.Pos(), "no dominating comparison proves this access inside the input (residual goal %s >= 0)", s.goal)
			}
		}
	}
	// the protocol codec's stream path: decodeUintFromReader must not accept a short read of the remainder bytes
	if f := c.Fn("internal/types", "Decoder.decodeUintFromReader"); f != nil {
		n := 0
		allInstrs(f, func(in ssa.Instruction) {
			call, ok := in.(*ssa.Call)
			if !ok {
				return
			}
			sc := call.Call.StaticCallee()
			if sc == nil || !(sc.String() == "(*bytes.Reader).Read" || sc.String() == "io.ReadFull") {
				return
			}
			n++
			okCount := sc.String() == "io.ReadFull"
			for _, r := range *call.Referrers() {
				if ex, ok := r.(*ssa.Extract); ok && ex.Index == 0 {
					for _, r2 := range *ex.Referrers() {
						if bo, ok := r2.(*ssa.BinOp); ok && (bo.Op == token.NEQ || bo.Op == token.EQL || bo.Op == token.LSS) {
							okCount = true
						}
					}
				}
			}
			c.Check(okCount, "C12.truncation", funcKey(f)+" · remainder read", call.Pos(), "count of remainder bytes read is compared with the number required (or io.ReadFull)", "the number of remainder bytes actually read is ignored: a natural truncated inside its remainder is zero-padded and accepted")
		})
		if n == 0 {
			c.Bad("C12.truncation", funcKey(f)+" · remainder read", f.Pos(), "no remainder read found")
		}
		target := c.Obj("internal/types", "Decoder.DecodeUint")
		c.Check(len(callsIn(f, target)) > 0, "C12.truncation", funcKey(f)+" · delegates to DecodeUint", f.Pos(), "assembled bytes are decoded by DecodeUint", "does not delegate to DecodeUint")
	}
	c.Rule("C12.minimality", "in each of the five decoders every successful return of a value assembled from more than one input byte is reached only through the passing edge of a lower-bound comparison on that value: v >= 2^(7·l) for the l-byte form (bound = 1 << 7·l with l a plain variable) and v >= 2^56 for the 9-byte form", 10)
	for _, ni := range natImpls {
		f := c.Fn(ni.rel, ni.dec)
		if f == nil {
			continue
		}
		c12Minimality(c, f)
	}
	c12Encoders(c)
	// what every decoder returns, bit by bit (replaces the former sibling comparison of two of them, which
	// reported any rewrite of one copy)
	c.Rule("C12.decoded-value", "for every first byte p (l = its leading one bits) and every input length in {1..l, l+1, l+2, 9, 10, 16}, each of the five decoders — followed with p and the length as constants and the payload bytes symbolic, data-dependent tests both ways — never indexes or slices outside the input, fails on every path when fewer than l+1 bytes are present, and on every successful return yields exactly: bit j of the value = bit j mod 8 of input byte 1 + ⌊j/8⌋ for j < 8l, the bits of p below its leading ones and the terminating zero at positions 8l.., zero above (the whole of bytes 1..8 for p = 0xFF), and l+1 as the number of bytes consumed where that is reported", 45)
	for _, ni := range natImpls {
		f := c.Fn(ni.rel, ni.dec)
		if f == nil {
			continue
		}
		c12DecodedValue(c, f)
	}
	return "Natural-number codec mechanisms decided statically over the five implementations (protocol codec, legacy serializer, PVM reader, telemetry, fuzz): every index/slice of the input in the decoders is proven in bounds by a linear-arithmetic argument from the dominating length comparisons (truncated input cannot be read past its end, and is rejected by those comparisons); every multi-byte success return is guarded by the minimality lower bound (2^(7l), 2^56 for the 0xFF form); the encoders select the 9-byte form exactly from 2^56 (explicit threshold, or a search loop over l = 0..7 with the range test 2^(7l) <= x < 2^(7(l+1))) and build the prefix as 256 - 2^(8-l) + floor(x / 2^(8l)).",
		[]string{"go/ssa; linear bounds prover (dominating comparisons, rotated-loop phi facts, field-load versions, pure-getter inlining)", "not decided: bijection on all 2^64 values, agreement of the emitted remainder bytes (little-endian order) beyond the shared helper calls"}
}

// successReturn classifies a return of decoder f: (value, isSuccess).
func c12Success(f *ssa.Function, r *ssa.Return) (ssa.Value, bool) {
	res := retResults(r)
	if len(res) < 2 {
		return nil, false
	}
	last := res[len(res)-1]
	switch {
	case types.Identical(last.Type(), types.Universe.Lookup("error").Type()):
		return res[0], !isErrorReturn(f, r)
	default:
		// (value, consumed int) or (value, consumed, ExitReason)
		if len(res) == 3 {
			k, ok := constInt(res[2])
			return res[0], ok && k == 0
		}
		k, ok := constInt(res[1])
		return res[0], !(ok && k == 0)
	}
}

// byteOrigin: the value is a conversion/masking of a single input byte.
func byteOrigin(v ssa.Value, d int) bool {
	if d > 8 {
		return false
	}
	if _, ok := v.(*ssa.Const); ok {
		return true
	}
	if b, ok := v.Type().Underlying().(*types.Basic); ok && (b.Kind() == types.Uint8) {
		return true
	}
	switch x := v.(type) {
	case *ssa.Convert:
		return byteOrigin(x.X, d+1)
	case *ssa.ChangeType:
		return byteOrigin(x.X, d+1)
	}
	return false
}

func c12Minimality(c *Ctx, f *ssa.Function) {
	// A guard on the assembled value v is a minimality bound when, as a function of v (and of the byte count l, the
	// only other non-constant leaf of the test), it rejects 2^(7l) − 1 and passes 2^(7l) for l = 1..7 — or, without
	// another leaf, rejects 2^56 − 1 and passes 2^56. Decided by evaluating the test; its written form
	// (v < 1<<(7l), v>>(7l) == 0, a negated ≥, operands exchanged …) does not matter.
	type guard struct {
		e    edge
		kind string
	}
	var leavesOf func(v, stop ssa.Value, d int, out map[ssa.Value]bool, found *bool)
	leavesOf = func(v, stop ssa.Value, d int, out map[ssa.Value]bool, found *bool) {
		if v == stop {
			*found = true
			return
		}
		if _, isC := v.(*ssa.Const); isC {
			return
		}
		if d > 8 {
			out[v] = true
			return
		}
		switch x := v.(type) {
		case *ssa.BinOp:
			leavesOf(x.X, stop, d+1, out, found)
			leavesOf(x.Y, stop, d+1, out, found)
		case *ssa.UnOp:
			if x.Op == token.MUL || x.Op == token.ARROW {
				out[v] = true
				return
			}
			leavesOf(x.X, stop, d+1, out, found)
		case *ssa.Convert:
			leavesOf(x.X, stop, d+1, out, found)
		case *ssa.ChangeType:
			leavesOf(x.X, stop, d+1, out, found)
		default:
			out[v] = true
		}
	}
	guardsOf := func(v ssa.Value) []guard {
		var out []guard
		for _, b := range f.Blocks {
			ifi, ok := b.Instrs[len(b.Instrs)-1].(*ssa.If)
			if !ok {
				continue
			}
			leaves := map[ssa.Value]bool{}
			found := false
			leavesOf(ifi.Cond, v, 0, leaves, &found)
			if !found || len(leaves) > 1 {
				continue
			}
			var leaf ssa.Value
			for l := range leaves {
				leaf = l
			}
			eval := func(vv, lv int64) (int64, bool) {
				env := intEnv{params: map[ssa.Value]int64{}, lens: map[ssa.Value]int64{}, unknown: map[ssa.Value]bool{}, cells: map[ssa.Value]int64{}}
				env.opaque = func(y ssa.Value) (int64, bool) {
					switch y {
					case v:
						return vv, true
					case leaf:
						return lv, leaf != nil
					}
					return 0, false
				}
				return evalInt(ifi.Cond, env, 0)
			}
			for succ := 0; succ < 2; succ++ {
				passes := func(vv, lv int64) (bool, bool) {
					k, ok := eval(vv, lv)
					return (k != 0) == (succ == 0), ok
				}
				kind := ""
				if leaf == nil {
					lo, ok1 := passes(1<<56-1, 0)
					hi, ok2 := passes(1<<56, 0)
					top, ok3 := passes(-1, 0)
					if ok1 && ok2 && ok3 && !lo && hi && top {
						kind = "2^56"
					}
				} else {
					all := true
					for l := int64(1); l <= 7 && all; l++ {
						lo, ok1 := passes(1<<(7*uint(l))-1, l)
						hi, ok2 := passes(1<<(7*uint(l)), l)
						top, ok3 := passes(1<<(8*uint(l))-1, l)
						all = ok1 && ok2 && ok3 && !lo && hi && top
					}
					if all {
						kind = "2^(7l)"
					}
				}
				if kind == "" {
					// some other monotone lower bound? (reported to explain a miss)
					if leaf == nil {
						if lo, ok1 := passes(0, 0); ok1 && !lo {
							if hi, ok2 := passes(-1, 0); ok2 && hi {
								out = append(out, guard{edge{b, succ}, "another bound: " + abbr(exprStr(ifi.Cond, exprOpts{}))})
							}
						}
					} else if lo, ok1 := passes(0, 3); ok1 && !lo {
						if hi, ok2 := passes(-1, 3); ok2 && hi {
							out = append(out, guard{edge{b, succ}, "another bound: " + abbr(exprStr(ifi.Cond, exprOpts{}))})
						}
					}
					continue
				}
				out = append(out, guard{edge{b, succ}, kind})
			}
		}
		return out
	}
	// decide one carried value at one program point
	decide := func(v ssa.Value, at ssa.Instruction) (ok bool, kinds []string) {
		var good []edge
		for _, g := range guardsOf(v) {
			if guardedByPhi(f, at, []edge{g.e}) {
				kinds = append(kinds, g.kind)
			}
			if g.kind == "2^56" || g.kind == "2^(7l)" {
				good = append(good, g.e)
			}
		}
		return guardedByPhi(f, at, good), kinds
	}
	n := 0
	allInstrs(f, func(in ssa.Instruction) {
		r, ok := in.(*ssa.Return)
		if !ok {
			return
		}
		v, succ := c12Success(f, r)
		if !succ || v == nil || byteOrigin(v, 0) {
			return
		}
		n++
		key := fmt.Sprintf("%s · success return #%d", funcKey(f), n)
		sv := stripConv(v)
		guarded, kinds := decide(sv, r)
		if !guarded {
			if p, isPhi := sv.(*ssa.Phi); isPhi && p.Block() == r.Block() {
				// a merged return: each incoming multi-byte value is guarded before it arrives
				guarded = true
				for k, e := range p.Edges {
					if byteOrigin(e, 0) {
						continue
					}
					pred := p.Block().Preds[k]
					g, ks := decide(stripConv(e), pred.Instrs[len(pred.Instrs)-1])
					kinds = append(kinds, ks...)
					if !g {
						guarded = false
					}
				}
			}
		}
		if !guarded {
			// a value carried to the return through phis (a search loop that keeps the accepted candidate): some
			// multi-byte incoming value is guarded on every path to the return
			seen := map[ssa.Value]bool{}
			var walk func(x ssa.Value, d int)
			walk = func(x ssa.Value, d int) {
				x = stripConv(x)
				if seen[x] || d > 3 || guarded {
					return
				}
				seen[x] = true
				if p, isPhi := x.(*ssa.Phi); isPhi {
					for _, e := range p.Edges {
						walk(e, d+1)
					}
					return
				}
				if _, isC := x.(*ssa.Const); isC || byteOrigin(x, 0) {
					return
				}
				g, ks := decide(x, r)
				kinds = append(kinds, ks...)
				if g {
					guarded = true
				}
			}
			if p, isPhi := sv.(*ssa.Phi); isPhi && p.Block() != r.Block() {
				walk(sv, 0)
			}
		}
		if guarded {
			c.OK("C12.minimality", key, r.Pos(), "guarded by lower bound %v (threshold evaluated: rejects 2^(7l) − 1, passes 2^(7l), l = 1..7; 2^56 for the 9-byte form)", uniqSorted(kinds))
		} else if len(kinds) > 0 {
			c.Bad("C12.minimality", key, r.Pos(), "the only lower bounds guarding this multi-byte result are %v, not 2^(7l) / 2^56: over-long encodings are accepted", uniqSorted(kinds))
		} else {
			c.Bad("C12.minimality", key, r.Pos(), "a value assembled from several input bytes (%s) is returned without any lower-bound check: non-minimal encodings are accepted", abbr(exprStr(v, shapeOpts)))
		}
	})
}

// c12Encoders: threshold/search-range/prefix agreement of the four encoders.
func c12Encoders(c *Ctx) {
	c.Rule("C12.encoders", "each encoder emits the 9-byte form exactly for x >= 2^56: either an explicit comparison with 1<<56, or a search loop whose index runs over exactly 0..7 with the class test 2^(7l) <= x < 2^(7(l+1)); the prefix byte is 256 - 2^(8-l) + x / 2^(8l)", 8)
	for _, ni := range natImpls {
		if ni.enc == "" {
			continue
		}
		f := c.Fn(ni.rel, ni.enc)
		if f == nil {
			continue
		}
		key := funcKey(f)
		// explicit threshold?
		explicit := false
		for _, b := range f.Blocks {
			if ifi, ok := b.Instrs[len(b.Instrs)-1].(*ssa.If); ok {
				if bo, ok := ifi.Cond.(*ssa.BinOp); ok && (bo.Op == token.GEQ || bo.Op == token.LSS) {
					if k, ok := constInt(bo.Y); ok && uint64(k) == uint64(1)<<56 {
						if _, isParam := stripConv(bo.X).(*ssa.Parameter); isParam {
							explicit = true
						}
					}
				}
			}
		}
		// search loop: phi index init 0, step +1, continue condition i <= 7 / i < 8
		loopMax := int64(-1)
		var classPhi *ssa.Phi
		allInstrs(f, func(in ssa.Instruction) {
			p, ok := in.(*ssa.Phi)
			if !ok || !isIntegerT(p.Type()) || len(p.Edges) != 2 {
				return
			}
			init, okI := constInt(p.Edges[0])
			if !okI || init != 0 {
				return
			}
			step, ok := stripConv(p.Edges[1]).(*ssa.BinOp)
			if !ok || step.Op != token.ADD || stripConv(step.X) != ssa.Value(p) {
				return
			}
			if k, ok := constInt(step.Y); !ok || k != 1 {
				return
			}
			// the loop header condition on p; the class loop is the one whose body tests lower <= x
			for _, ref := range *p.Referrers() {
				bo, ok := ref.(*ssa.BinOp)
				if !ok || stripConv(bo.X) != ssa.Value(p) {
					continue
				}
				k, ok := constInt(bo.Y)
				if !ok {
					continue
				}
				usedInIf := false
				for _, r2 := range *bo.Referrers() {
					if _, ok := r2.(*ssa.If); ok {
						usedInIf = true
					}
				}
				if !usedInIf {
					continue
				}
				max := int64(-1)
				if bo.Op == token.LEQ {
					max = k
				} else if bo.Op == token.LSS {
					max = k - 1
				}
				// is this the class-search loop? its index feeds a shift amount 7*index
				feeds7 := false
				var walk func(v ssa.Value, d int)
				walk = func(v ssa.Value, d int) {
					if d > 4 || feeds7 {
						return
					}
					for _, r3 := range *v.Referrers() {
						if m, ok := r3.(*ssa.BinOp); ok {
							if m.Op == token.MUL {
								if k7, ok := constInt(m.X); ok && k7 == 7 {
									feeds7 = true
								}
								if k7, ok := constInt(m.Y); ok && k7 == 7 {
									feeds7 = true
								}
							}
							if m.Op == token.ADD {
								walk(m, d+1)
							}
						}
						if cv, ok := r3.(*ssa.Convert); ok {
							walk(cv, d+1)
						}
					}
				}
				walk(p, 0)
				if feeds7 && max >= 0 {
					loopMax = max
					classPhi = p
				}
			}
		})
		switch {
		case explicit:
			c.OK("C12.encoders", key+" · 9-byte threshold", f.Pos(), "explicit comparison of the value with 1<<56")
		case loopMax == 7:
			c.OK("C12.encoders", key+" · 9-byte threshold", classPhi.Pos(), "class search runs l = 0..7, so the fallback is taken exactly for x >= 2^56")
		case loopMax >= 0:
			c.Bad("C12.encoders", key+" · 9-byte threshold", classPhi.Pos(), "class search runs l = 0..%d instead of 0..7: values in [2^%d, 2^56) fall through to the 9-byte form (non-minimal, differs from the other encoders)", loopMax, 7*(loopMax+1))
		default:
			c.Unknown("C12.encoders", key+" · 9-byte threshold", f.Pos(), "neither an explicit 2^56 comparison nor a class-search loop was recognised")
		}
		// prefix formula: some value converted to byte whose shape is 256 - (1 << (8 - l)) + x / (1 << (8*l))
		found := false
		var shapes []string
		allInstrs(f, func(in ssa.Instruction) {
			cv, ok := in.(*ssa.Convert)
			if !ok {
				return
			}
			if b, ok := cv.Type().Underlying().(*types.Basic); !ok || b.Kind() != types.Uint8 {
				return
			}
			s := exprStr(cv.X, exprOpts{})
			if strings.Contains(s, "<<") && strings.Contains(s, "/") {
				shapes = append(shapes, s)
				if prefixShapeOK(cv.X) {
					found = true
				}
			}
		})
		if found {
			c.OK("C12.encoders", key+" · prefix byte", f.Pos(), "prefix = 256 - 2^(8-l) + x / 2^(8l)")
		} else {
			c.Bad("C12.encoders", key+" · prefix byte", f.Pos(), "no byte-converted expression of the form 256 - (1 << (8-l)) + x/(1 << (8l)) found; candidates: %v", shapes)
		}
	}
}

// prefixShapeOK matches  (256 - (1 << (8 - l))) + (x / (1 << (8*l)))  up to
// commutativity, conversions and the spelling 1<<8 for 256.
func prefixShapeOK(v ssa.Value) bool {
	v = stripConv(v)
	add, ok := v.(*ssa.BinOp)
	if !ok || add.Op != token.ADD {
		return false
	}
	isBase := func(a ssa.Value) bool {
		s, ok := stripConv(a).(*ssa.BinOp)
		if !ok || s.Op != token.SUB {
			return false
		}
		k, ok := constInt(s.X)
		if !ok || k != 256 {
			return false
		}
		sh, ok := stripConv(s.Y).(*ssa.BinOp)
		if !ok || sh.Op != token.SHL {
			return false
		}
		if one, ok := constInt(sh.X); !ok || one != 1 {
			return false
		}
		d, ok := stripConv(sh.Y).(*ssa.BinOp)
		if !ok || d.Op != token.SUB {
			return false
		}
		k8, ok := constInt(d.X)
		return ok && k8 == 8
	}
	isFloor := func(a ssa.Value) bool {
		a = stripConv(a)
		q, ok := a.(*ssa.BinOp)
		if !ok || q.Op != token.QUO {
			return false
		}
		den := stripConv(q.Y)
		if local := resolveLocal(den); local != nil {
			den = local
		}
		sh, ok := den.(*ssa.BinOp)
		if !ok || sh.Op != token.SHL {
			return false
		}
		if one, ok := constInt(sh.X); !ok || one != 1 {
			return false
		}
		m, ok := stripConv(sh.Y).(*ssa.BinOp)
		if !ok || m.Op != token.MUL {
			return false
		}
		k1, ok1 := constInt(m.X)
		k2, ok2 := constInt(m.Y)
		return (ok1 && k1 == 8) || (ok2 && k2 == 8)
	}
	return (isBase(add.X) && isFloor(add.Y)) || (isBase(add.Y) && isFloor(add.X))
}

func dumpConds(f *ssa.Function) {
	for _, s := range condShapes(f) {
		fmt.Printf("COND %s | %s\n", funcKey(f), s)
	}
}

func diffStrings(a, b []string) []string {
	in := map[string]bool{}
	for _, x := range b {
		in[x] = true
	}
	var out []string
	for _, x := range a {
		if !in[x] {
			out = append(out, x)
		}
	}
	return out
}

// c12DecodedValue: bit-provenance abstract interpretation of one decoder over
// the partitions (first byte, input length); see bitfield.go.
func c12DecodedValue(c *Ctx, f *ssa.Function) {
	// where the input enters: a []byte parameter, or a receiver object with a []byte field and an integer position
	dataParam, recvParam := -1, -1
	var dataField, posField = -1, -1
	for i, p := range f.Params {
		if isByteSlice(p.Type()) {
			dataParam = i
		}
	}
	if dataParam < 0 && len(f.Params) > 0 {
		if pt, ok := f.Params[0].Type().Underlying().(*types.Pointer); ok {
			if st, ok := pt.Elem().Underlying().(*types.Struct); ok {
				for k := 0; k < st.NumFields(); k++ {
					if isByteSlice(st.Field(k).Type()) && dataField < 0 {
						dataField = k
					} else if _, _, isInt := bfWidth(st.Field(k).Type()); isInt && posField < 0 {
						posField = k
					}
				}
				if dataField >= 0 && posField >= 0 {
					recvParam = 0
				}
			}
		}
	}
	if dataParam < 0 && recvParam < 0 {
		c.Unknown("C12.decoded-value", funcKey(f), f.Pos(), "cannot tell where the input bytes enter this decoder")
		return
	}
	res := f.Signature.Results()
	errT := types.Universe.Lookup("error").Type()
	success := func(r []any) (ok, decided bool) {
		if len(r) != res.Len() {
			return false, false
		}
		last := r[len(r)-1]
		if types.Identical(res.At(res.Len()-1).Type(), errT) {
			e, isE := last.(bfErr)
			return isE && !e.nonNil, isE
		}
		i, isI := last.(bfInt)
		if !isI {
			return false, false
		}
		k, conc := i.concrete()
		if !conc {
			return false, false
		}
		if named, isN := res.At(res.Len() - 1).Type().(*types.Named); isN && named.Obj().Name() == "ExitReason" {
			return k == 0, true
		}
		return k != 0, true // (value, bytes consumed): zero consumed reports failure
	}
	usedIdx := -1
	for k := 1; k < res.Len(); k++ {
		if b, ok := res.At(k).Type().Underlying().(*types.Basic); ok && b.Kind() == types.Int {
			usedIdx = k
		}
	}
	for l := 0; l <= 8; l++ {
		key := fmt.Sprintf("%s · l=%d", funcKey(f), l)
		bad, undecided := "", ""
		parts, successes := 0, 0
		lo, hi := 0, 0 // prefixes with exactly l leading ones
		switch {
		case l == 8:
			lo, hi = 0xFF, 0xFF
		default:
			lo = 0x100 - (1 << uint(8-l))
			hi = lo + (1 << uint(7-l)) - 1
		}
		lens := map[int]bool{l + 1: true, l + 2: true, 9: true, 10: true, 16: true}
		for n := 1; n <= l; n++ {
			lens[n] = true
		}
		for p := lo; p <= hi && bad == "" && undecided == ""; p++ {
			for n := range lens {
				if bad != "" || undecided != "" {
					break
				}
				parts++
				arr := &bfArray{el: make([]bfInt, n)}
				arr.el[0] = bfConst(uint64(p), 8, false)
				for i := 1; i < n; i++ {
					v := bfInt{w: 8}
					for j := 0; j < 8; j++ {
						v.b[j] = bfBit{k: 2, i: uint16(8*i + j)}
					}
					arr.el[i] = v
				}
				m := &bfMachine{maxSteps: 20000}
				heap := bfHeap{}
				args := make([]any, len(f.Params))
				for i := range args {
					args[i] = bfUnknown{"parameter"}
				}
				if dataParam >= 0 {
					args[dataParam] = bfSlice{root: arr, lo: 0, hi: n}
				} else {
					m.nextObj++
					heap[m.nextObj] = map[int]any{dataField: bfSlice{root: arr, lo: 0, hi: n}, posField: bfConst(0, 64, true)}
					args[recvParam] = bfPtr{obj: m.nextObj, field: -1}
				}
				where := fmt.Sprintf("first byte 0x%02X, %d input byte(s)", p, n)
				for _, o := range m.call(f, args, heap, 0) {
					if o.fault != "" {
						if o.panics {
							bad = where + ": " + o.fault + " (Go runtime panic on untrusted input)"
						} else {
							undecided = where + ": " + o.fault
						}
						break
					}
					ok, decided := success(o.results)
					if !decided {
						undecided = where + ": the success status of a return is not determined"
						break
					}
					if !ok {
						continue
					}
					if n < l+1 {
						bad = where + ": a truncated encoding is accepted"
						break
					}
					successes++
					v, isInt := o.results[0].(bfInt)
					if !isInt {
						undecided = where + ": the decoded value is not an integer the domain follows"
						break
					}
					for j := 0; j < 64 && bad == ""; j++ {
						var want bfBit
						switch {
						case j < 8*l:
							want = bfBit{k: 2, i: uint16(8*(1+j/8) + j%8)}
						case l < 8 && j < 8*l+(7-l):
							if (p&(0xFF>>uint(l+1)))>>uint(j-8*l)&1 == 1 {
								want = bfBit{k: 1}
							}
						}
						var got bfBit
						if j < int(v.w) {
							got = v.b[j]
						}
						if got != want {
							bad = fmt.Sprintf("%s: bit %d of the decoded value is %s, the encoding defines %s (value %s)", where, j, bfBitString(got), bfBitString(want), v)
						}
					}
					if bad == "" && usedIdx >= 0 {
						u, isInt := o.results[usedIdx].(bfInt)
						k, conc := u.concrete()
						if !isInt || !conc || int(k) != l+1 {
							bad = fmt.Sprintf("%s: %v bytes reported consumed, the encoding has %d", where, o.results[usedIdx], l+1)
						}
					}
					if bad == "" && recvParam >= 0 {
						if pos, isInt := o.heap[1][posField].(bfInt); isInt {
							if k, conc := pos.concrete(); !conc || int(k) != l+1 {
								bad = fmt.Sprintf("%s: the reader advanced to %v, the encoding has %d bytes", where, pos, l+1)
							}
						}
					}
				}
			}
		}
		switch {
		case bad != "":
			c.Bad("C12.decoded-value", key, f.Pos(), "%s", bad)
		case undecided != "":
			c.Unknown("C12.decoded-value", key, f.Pos(), "%s", undecided)
		case successes == 0:
			c.Bad("C12.decoded-value", key, f.Pos(), "no input with %d leading one bits in its first byte is ever decoded successfully", l)
		default:
			c.OK("C12.decoded-value", key, f.Pos(), "%d partitions (first byte × length) followed: in range, truncated input rejected, %d successful returns with the defined bit provenance", parts, successes)
		}
	}
}

func bfBitString(b bfBit) string {
	switch b.k {
	case 0:
		return "0"
	case 1:
		return "1"
	case 2:
		return fmt.Sprintf("bit %d of input byte %d", b.i%8, b.i/8)
	}
	return "not determined"
}
