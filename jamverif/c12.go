package main

import (
	"fmt"
	"go/token"
	"go/types"
	"os"
	"strings"

	"golang.org/x/tools/go/ssa"
)

type natImpl struct {
	rel, enc, dec string
}

var natImpls = []natImpl{
	{"internal/types", "Encoder.EncodeUint", "Decoder.DecodeUint"},
	{"internal/utilities", "SerializeU64", "DeserializeU64"},
	{"PVM", "", "ReadUintVariable"},
	{"internal/telemetry", "EncodeNatural", "Decoder.ReadNatural"},
	{"internal/fuzz", "compactEncode", "compactDecode"},
}

func checkC12(c *Ctx) (string, []string) {
	dump := os.Getenv("JAMVERIF_DUMP") != ""
	c.Rule("C12.truncation", "every index/slice of the input bytes in the natural-number decoders is proven inside len(data) by the comparisons that dominate it (linear bounds prover)", 20)
	for _, ni := range natImpls {
		f := c.Fn(ni.rel, ni.dec)
		if f == nil {
			continue
		}
		if dump {
			dumpConds(f)
		}
		for _, s := range checkBounds(f) {
			key := funcKey(f) + " · " + s.desc
			if dump {
				fmt.Printf("BOUNDS %v %s  goal=%s\n", s.ok, key, s.goal)
			}
			if s.ok {
				c.OK("C12.truncation", key, s.in.Pos(), "in bounds by dominating comparisons")
			} else {
				c.Bad("C12.truncation", key, s.in.Pos(), "no dominating comparison proves this access inside the input (residual goal %s >= 0)", s.goal)
			}
		}
	}
	// the protocol codec's stream path: decodeUintFromReader must not accept a short read of the remainder bytes
	if f := c.Fn("internal/types", "Decoder.decodeUintFromReader"); f != nil {
		n := 0
		allInstrs(f, func(in ssa.Instruction) {
			call, ok := in.(*ssa.Call)
			if !ok {
				return
			}
			sc := call.Call.StaticCallee()
			if sc == nil || !(sc.String() == "(*bytes.Reader).Read" || sc.String() == "io.ReadFull") {
				return
			}
			n++
			okCount := sc.String() == "io.ReadFull"
			for _, r := range *call.Referrers() {
				if ex, ok := r.(*ssa.Extract); ok && ex.Index == 0 {
					for _, r2 := range *ex.Referrers() {
						if bo, ok := r2.(*ssa.BinOp); ok && (bo.Op == token.NEQ || bo.Op == token.EQL || bo.Op == token.LSS) {
							okCount = true
						}
					}
				}
			}
			c.Check(okCount, "C12.truncation", funcKey(f)+" · remainder read", call.Pos(), "count of remainder bytes read is compared with the number required (or io.ReadFull)", "the number of remainder bytes actually read is ignored: a natural truncated inside its remainder is zero-padded and accepted")
		})
		if n == 0 {
			c.Bad("C12.truncation", funcKey(f)+" · remainder read", f.Pos(), "no remainder read found")
		}
		target := c.Obj("internal/types", "Decoder.DecodeUint")
		c.Check(len(callsIn(f, target)) > 0, "C12.truncation", funcKey(f)+" · delegates to DecodeUint", f.Pos(), "assembled bytes are decoded by DecodeUint", "does not delegate to DecodeUint")
	}
	c.Rule("C12.encoded-bytes", "for x = 0 and for every position t = 0..63 of the highest set bit of x (bits above t zero, bit t one, bits below symbolic), each of the four encoders — followed with t as the constant of the partition, tests on x decided by the interval of the pattern — never fails or panics and returns exactly the bytes the encoding defines: l = ⌊t/7⌋ for t < 56, l+1 bytes, first byte = l leading ones, a zero, then bits 8l.. of x; byte k = bits 8(k−1)..8k−1 of x; for t ≥ 56 the byte 0xFF followed by the eight little-endian bytes of x", 40)
	for _, ni := range natImpls {
		if ni.enc == "" {
			continue
		}
		if f := c.Fn(ni.rel, ni.enc); f != nil {
			c12EncodedBytes(c, f)
		}
	}
	// what every decoder returns, bit by bit (replaces the former sibling comparison of two of them, which
	// reported any rewrite of one copy)
	c.Rule("C12.decoded-value", "for every first byte p (l = its leading one bits) and every input length in {1..l, l+1, l+2, 9, 10, 16}, each of the five decoders — followed with p and the length as constants and the payload bytes symbolic (where acceptance depends on the payload, i.e. the prefix carries no value bits, additionally partitioned by the position of the highest set payload bit) — never indexes or slices outside the input; fails on every path when fewer than l+1 bytes are present or the value is below 2^(7l) (2^56 for the 9-byte form), succeeds on every path otherwise (the accepted set is exactly the set of canonical encodings); and on every successful return yields exactly: bit j of the value = bit j mod 8 of input byte 1 + ⌊j/8⌋ for j < 8l, the bits of p below its leading ones and the terminating zero at positions 8l.., zero above (the whole of bytes 1..8 for p = 0xFF), and l+1 as the number of bytes consumed where that is reported", 45)
	for _, ni := range natImpls {
		f := c.Fn(ni.rel, ni.dec)
		if f == nil {
			continue
		}
		c12DecodedValue(c, f, "C12.decoded-value")
	}
	return "Natural-number codec mechanisms decided statically over the five implementations (protocol codec, legacy serializer, PVM reader, telemetry, fuzz): every index/slice of the input in the decoders is proven in bounds by a linear-arithmetic argument from the dominating length comparisons (truncated input cannot be read past its end, and is rejected by those comparisons); every multi-byte success return is guarded by the minimality lower bound (2^(7l), 2^56 for the 0xFF form); the encoders select the 9-byte form exactly from 2^56 (explicit threshold, or a search loop over l = 0..7 with the range test 2^(7l) <= x < 2^(7(l+1))) and build the prefix as 256 - 2^(8-l) + floor(x / 2^(8l)).",
		[]string{"go/ssa; linear bounds prover (dominating comparisons, rotated-loop phi facts, field-load versions, pure-getter inlining)", "not decided: bijection on all 2^64 values, agreement of the emitted remainder bytes (little-endian order) beyond the shared helper calls"}
}

func dumpConds(f *ssa.Function) {
	for _, s := range condShapes(f) {
		fmt.Printf("COND %s | %s\n", funcKey(f), s)
	}
}

// c12DecodedValue: bit-provenance abstract interpretation of one decoder over
// the partitions (first byte, input length, position of the highest set
// payload bit where acceptance depends on it); see bitfield.go. It decides
// the accepted set exactly (truncated and non-minimal strings fail on every
// path, canonical ones succeed on every path) and the value returned.
func c12DecodedValue(c *Ctx, f *ssa.Function, rule string) {
	// where the input enters: a []byte parameter, or a receiver object with a []byte field and an integer position
	dataParam, recvParam := -1, -1
	var dataField, posField = -1, -1
	for i, p := range f.Params {
		if isByteSlice(p.Type()) {
			dataParam = i
		}
	}
	if dataParam < 0 && len(f.Params) > 0 {
		if pt, ok := f.Params[0].Type().Underlying().(*types.Pointer); ok {
			if st, ok := pt.Elem().Underlying().(*types.Struct); ok {
				for k := 0; k < st.NumFields(); k++ {
					if isByteSlice(st.Field(k).Type()) && dataField < 0 {
						dataField = k
					} else if _, _, isInt := bfWidth(st.Field(k).Type()); isInt && posField < 0 {
						posField = k
					}
				}
				if dataField >= 0 && posField >= 0 {
					recvParam = 0
				}
			}
		}
	}
	if dataParam < 0 && recvParam < 0 {
		c.Unknown(rule, funcKey(f), f.Pos(), "cannot tell where the input bytes enter this decoder")
		return
	}
	res := f.Signature.Results()
	errT := types.Universe.Lookup("error").Type()
	success := func(r []any) (ok, decided bool) {
		if len(r) != res.Len() {
			return false, false
		}
		last := r[len(r)-1]
		if types.Identical(res.At(res.Len()-1).Type(), errT) {
			e, isE := last.(bfErr)
			return isE && !e.nonNil, isE
		}
		i, isI := last.(bfInt)
		if !isI {
			return false, false
		}
		k, conc := i.concrete()
		if !conc {
			return false, false
		}
		if named, isN := res.At(res.Len() - 1).Type().(*types.Named); isN && named.Obj().Name() == "ExitReason" {
			return k == 0, true
		}
		return k != 0, true // (value, bytes consumed): zero consumed reports failure
	}
	usedIdx := -1
	for k := 1; k < res.Len(); k++ {
		if b, ok := res.At(k).Type().Underlying().(*types.Basic); ok && b.Kind() == types.Int {
			usedIdx = k
		}
	}
	for l := 0; l <= 8; l++ {
		key := fmt.Sprintf("%s · l=%d", funcKey(f), l)
		bad, undecided := "", ""
		parts, successes, rejections := 0, 0, 0
		lo, hi := 0, 0 // prefixes with exactly l leading ones
		switch {
		case l == 8:
			lo, hi = 0xFF, 0xFF
		default:
			lo = 0x100 - (1 << uint(8-l))
			hi = lo + (1 << uint(7-l)) - 1
		}
		lens := map[int]bool{l + 1: true, l + 2: true, 9: true, 10: true, 16: true}
		for n := 1; n <= l; n++ {
			lens[n] = true
		}
		for p := lo; p <= hi && bad == "" && undecided == ""; p++ {
			low := 0
			if l < 8 {
				low = p & (0xFF >> uint(l+1))
			}
			for n := range lens {
				// sub-partitions: the position t of the highest set payload bit, where acceptance depends on the payload
				// (the prefix carries no value bits); tops = [-2] means "payload wholly symbolic"
				tops := []int{-2}
				if n >= l+1 && l >= 1 && low == 0 {
					tops = tops[:0]
					for t := -1; t < 8*l; t++ {
						tops = append(tops, t)
					}
				}
				for _, t := range tops {
					if bad != "" || undecided != "" {
						break
					}
					parts++
					payload := func(j int) bfBit { // bit j of the l-byte payload
						switch {
						case t == -2 || j < t:
							return bfBit{k: 2, i: uint16(8*(1+j/8) + j%8)}
						case j == t:
							return bfBit{k: 1}
						}
						return bfBit{}
					}
					m := &bfMachine{maxSteps: 20000}
					heap := bfHeap{}
					arr := m.newArray(heap, n)
					heap[arr][0] = bfConst(uint64(p), 8, false)
					for i := 1; i < n; i++ {
						v := bfInt{w: 8}
						for j := 0; j < 8; j++ {
							if i <= l {
								v.b[j] = payload(8*(i-1) + j)
							} else {
								v.b[j] = bfBit{k: 2, i: uint16(8*i + j)}
							}
						}
						heap[arr][i] = v
					}
					args := make([]any, len(f.Params))
					for i := range args {
						args[i] = bfUnknown{"parameter"}
					}
					recvObj := 0
					if dataParam >= 0 {
						args[dataParam] = bfSlice{obj: arr, lo: 0, hi: n, cp: n}
					} else {
						m.nextObj++
						recvObj = m.nextObj
						heap[recvObj] = map[int]any{dataField: bfSlice{obj: arr, lo: 0, hi: n, cp: n}, posField: bfConst(0, 64, true)}
						args[recvParam] = bfPtr{obj: recvObj, field: -1}
					}
					where := fmt.Sprintf("first byte 0x%02X, %d input byte(s)", p, n)
					// what the encoding says about this partition
					mustFail, mustSucceed := n < l+1, false
					if !mustFail {
						switch {
						case l == 0 || low > 0:
							mustSucceed = true
						case t == -2:
						case l == 8 && t < 56 || l < 8 && t < 7*l:
							mustFail = true
							where += fmt.Sprintf(", payload below 2^%d", t+1)
						default:
							mustSucceed = true
							where += fmt.Sprintf(", highest payload bit %d", t)
						}
					}
					for _, o := range m.call(f, args, heap, 0) {
						if o.fault != "" {
							if o.panics {
								bad = where + ": " + o.fault + " (Go runtime panic on untrusted input)"
							} else {
								undecided = where + ": " + o.fault
							}
							break
						}
						ok, decided := success(o.results)
						if !decided {
							undecided = where + ": the success status of a return is not determined"
							break
						}
						if !ok {
							if mustSucceed {
								bad = where + ": a canonical encoding is rejected"
								break
							}
							rejections++
							continue
						}
						if mustFail {
							if n < l+1 {
								bad = where + ": a truncated encoding is accepted"
							} else {
								bad = where + ": a non-minimal encoding is accepted"
							}
							break
						}
						successes++
						v, isInt := o.results[0].(bfInt)
						if !isInt {
							undecided = where + ": the decoded value is not an integer the domain follows"
							break
						}
						for j := 0; j < 64 && bad == ""; j++ {
							var want bfBit
							switch {
							case j < 8*l:
								want = payload(j)
							case l < 8 && j < 8*l+(7-l):
								if low>>uint(j-8*l)&1 == 1 {
									want = bfBit{k: 1}
								}
							}
							var got bfBit
							if j < int(v.w) {
								got = v.b[j]
							}
							if got != want {
								bad = fmt.Sprintf("%s: bit %d of the decoded value is %s, the encoding defines %s (value %s)", where, j, bfBitString(got), bfBitString(want), v)
							}
						}
						if bad == "" && usedIdx >= 0 {
							u, isInt := o.results[usedIdx].(bfInt)
							k, conc := u.concrete()
							if !isInt || !conc || int(k) != l+1 {
								bad = fmt.Sprintf("%s: %v bytes reported consumed, the encoding has %d", where, o.results[usedIdx], l+1)
							}
						}
						if bad == "" && recvParam >= 0 {
							if pos, isInt := o.heap[recvObj][posField].(bfInt); isInt {
								if k, conc := pos.concrete(); !conc || int(k) != l+1 {
									bad = fmt.Sprintf("%s: the reader advanced to %v, the encoding has %d bytes", where, pos, l+1)
								}
							}
						}
					}
				}
			}
		}
		switch {
		case bad != "":
			c.Bad(rule, key, f.Pos(), "%s", bad)
		case undecided != "":
			c.Unknown(rule, key, f.Pos(), "%s", undecided)
		case successes == 0:
			c.Bad(rule, key, f.Pos(), "no input with %d leading one bits in its first byte is ever decoded successfully", l)
		default:
			c.OK(rule, key, f.Pos(), "%d partitions followed: in range; truncated and non-minimal strings fail on every path (%d failing returns), canonical ones succeed on every path (%d returns) with the defined bit provenance", parts, rejections, successes)
		}
	}
}

func bfBitString(b bfBit) string {
	switch b.k {
	case 0:
		return "0"
	case 1:
		return "1"
	case 2:
		return fmt.Sprintf("bit %d of input byte %d", b.i%8, b.i/8)
	}
	return "not determined"
}

// c12EncodedBytes: bit-provenance abstract interpretation of one encoder over
// the partitions "position of the highest set bit of x".
func c12EncodedBytes(c *Ctx, f *ssa.Function) {
	xParam := -1
	for i, p := range f.Params {
		if w, s, ok := bfWidth(p.Type()); ok && w == 64 && !s {
			xParam = i
		}
	}
	if xParam < 0 {
		c.Unknown("C12.encoded-bytes", funcKey(f), f.Pos(), "no 64-bit unsigned parameter")
		return
	}
	res := f.Signature.Results()
	errT := types.Universe.Lookup("error").Type()
	xbit := func(t, j int) bfBit {
		switch {
		case j < t:
			return bfBit{k: 2, i: uint16(j)}
		case j == t:
			return bfBit{k: 1}
		}
		return bfBit{}
	}
	type class struct {
		name string
		ts   []int
	}
	classes := []class{{"x=0", []int{-1}}}
	for l := 0; l <= 7; l++ {
		var ts []int
		for t := 7 * l; t < 7*l+7; t++ {
			ts = append(ts, t)
		}
		classes = append(classes, class{fmt.Sprintf("l=%d", l), ts})
	}
	classes = append(classes, class{"l=8", []int{56, 57, 58, 59, 60, 61, 62, 63}})
	for _, cl := range classes {
		key := funcKey(f) + " · " + cl.name
		bad, undecided := "", ""
		rets := 0
		for _, t := range cl.ts {
			if bad != "" || undecided != "" {
				break
			}
			x := bfInt{w: 64}
			for j := 0; j < 64; j++ {
				x.b[j] = xbit(t, j)
			}
			where := fmt.Sprintf("highest set bit %d", t)
			if t < 0 {
				where = "x = 0"
			}
			// expected bytes
			var want [][8]bfBit
			switch {
			case t < 0:
				want = append(want, [8]bfBit{})
			case t >= 56:
				var b0 [8]bfBit
				for b := range b0 {
					b0[b] = bfBit{k: 1}
				}
				want = append(want, b0)
				for k := 1; k <= 8; k++ {
					var bk [8]bfBit
					for b := range bk {
						bk[b] = xbit(t, 8*(k-1)+b)
					}
					want = append(want, bk)
				}
			default:
				l := t / 7
				var b0 [8]bfBit
				for b := 0; b < 8; b++ {
					switch {
					case b >= 8-l:
						b0[b] = bfBit{k: 1}
					case b < 7-l:
						b0[b] = xbit(t, 8*l+b)
					}
				}
				want = append(want, b0)
				for k := 1; k <= l; k++ {
					var bk [8]bfBit
					for b := range bk {
						bk[b] = xbit(t, 8*(k-1)+b)
					}
					want = append(want, bk)
				}
			}
			m := &bfMachine{maxSteps: 20000}
			heap := bfHeap{}
			args := make([]any, len(f.Params))
			for i := range args {
				args[i] = bfUnknown{"parameter"}
			}
			args[xParam] = x
			for _, o := range m.call(f, args, heap, 0) {
				if o.fault != "" {
					if o.panics {
						bad = where + ": " + o.fault
					} else {
						undecided = where + ": " + o.fault
					}
					break
				}
				if len(o.results) != res.Len() || len(o.results) == 0 {
					undecided = where + ": unexpected result arity"
					break
				}
				if types.Identical(res.At(res.Len()-1).Type(), errT) {
					if e, isE := o.results[len(o.results)-1].(bfErr); !isE || e.nonNil {
						bad = where + ": the encoder can fail on this value"
						break
					}
				}
				sl, isSl := o.results[0].(bfSlice)
				if !isSl {
					undecided = where + ": the result is not a byte slice the domain follows"
					break
				}
				rets++
				if sl.hi-sl.lo != len(want) {
					bad = fmt.Sprintf("%s: %d bytes are emitted, the encoding has %d", where, sl.hi-sl.lo, len(want))
					break
				}
				for k := range want {
					got := bfElem(o.heap, sl.obj, sl.lo+k)
					for b := 0; b < 8 && bad == ""; b++ {
						if got.b[b] != want[k][b] {
							ws, gs := strings.Replace(bfBitString(want[k][b]), "of input byte", "of x, byte", 1), strings.Replace(bfBitString(got.b[b]), "of input byte", "of x, byte", 1)
							bad = fmt.Sprintf("%s: bit %d of output byte %d is %s, the encoding defines %s", where, b, k, gs, ws)
						}
					}
				}
				if bad != "" {
					break
				}
			}
		}
		switch {
		case bad != "":
			c.Bad("C12.encoded-bytes", key, f.Pos(), "%s", bad)
		case undecided != "":
			c.Unknown("C12.encoded-bytes", key, f.Pos(), "%s", undecided)
		case rets == 0:
			c.Bad("C12.encoded-bytes", key, f.Pos(), "no return reached")
		default:
			c.OK("C12.encoded-bytes", key, f.Pos(), "%d partition(s) followed, %d return(s): the defined bytes, bit for bit", len(cl.ts), rets)
		}
	}
}
