// Package vrf is a signature-only stand-in for the absent pkg/Rust-VRF git
// submodule. It is supplied to go/packages through Overlay so that every
// package of the module type-checks; it is never compiled into anything that
// runs. Bodies are deliberately empty.
package vrf

type Verifier struct{}

type Handler struct{}

type VerifyItem struct {
	Context   []byte
	Message   []byte
	Signature []byte
}

type VerifyResult struct {
	Output []byte
	Error  error
}

func NewVerifier(ring []byte, ringSize uint) (*Verifier, error) { return nil, nil }

func (v *Verifier) RingVerifyBatch(items []VerifyItem) ([]VerifyResult, error) { return nil, nil }

func (v *Verifier) RingVerify(input, aux, signature []byte) ([]byte, error) { return nil, nil }

func (v *Verifier) GetCommitment() ([]byte, error) { return nil, nil }

func (v *Verifier) Free() {}

func NewHandler(ring, secret []byte, ringSize, proverIdx uint) (*Handler, error) { return nil, nil }

func (h *Handler) Free() {}

func (h *Handler) IETFSign(context, message []byte) ([]byte, error) { return nil, nil }

func (h *Handler) IETFVerify(context, message, signature []byte, signerIdx uint) ([]byte, error) {
	return nil, nil
}

func (h *Handler) RingSign(context, message []byte) ([]byte, error) { return nil, nil }

func (h *Handler) RingVerify(context, message, signature []byte) ([]byte, error) { return nil, nil }

func (h *Handler) VRFIetfOutput(signature []byte) ([]byte, error) { return nil, nil }

func (h *Handler) VRFRingOutput(signature []byte) ([]byte, error) { return nil, nil }

func (h *Handler) GetCommitment() ([]byte, error) { return nil, nil }

func GetPublicKeyFromSecret(secret []byte) ([]byte, error) { return nil, nil }

func VRFIetfOutput(signature []byte) ([]byte, error) { return nil, nil }

func IETFSign(secret, context, message []byte) ([]byte, error) { return nil, nil }

func IETFVerify(context, message, signature, publicKey []byte) ([]byte, error) { return nil, nil }
