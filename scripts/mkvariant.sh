#!/bin/bash
# usage: mkvariant.sh <base.diff|-> <out.diff> <file> <python-replace-old> <python-replace-new>
# Builds a hand variant: /repo HEAD (+ base diff) with one textual replacement in <file>; writes the diff against HEAD; checks it compiles.
set -u
BASE=$1; OUT=$(readlink -f -m "$2"); FILE=$3; OLD=$4; NEW=$5
WT=$(mktemp -d /tmp/jv-mkv.XXXXXX)
git -C /repo worktree add --detach "$WT" HEAD >/dev/null 2>&1 || exit 2
trap 'git -C /repo worktree remove --force "$WT" >/dev/null 2>&1; rm -rf "$WT"' EXIT
if [ "$BASE" != "-" ]; then git -C "$WT" apply "$(readlink -f "$BASE")" || { echo "base does not apply"; exit 2; }; fi
python3 - "$WT/$FILE" "$OLD" "$NEW" <<'PY' || exit 2
import sys
p,old,new=sys.argv[1:4]
s=open(p).read()
if s.count(old)!=1:
    print("replacement text occurs %d times"%s.count(old)); sys.exit(1)
open(p,'w').write(s.replace(old,new))
PY
git -C "$WT" diff > "$OUT"
mkdir -p "$WT/pkg/Rust-VRF/vrf-func-ffi/src"; cp /verif/stubs/vrf.go "$WT/pkg/Rust-VRF/vrf-func-ffi/src/vrf.go"
(cd "$WT" && GOFLAGS=-mod=mod GOPROXY=off go build ./$(dirname $FILE)/ 2>&1 | head -5)
echo "wrote $OUT ($(wc -l < "$OUT") lines)"
