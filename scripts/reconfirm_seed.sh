#!/bin/bash
# usage: reconfirm_seed.sh <seed name>...  -- the stored demonstration passes on the unchanged tree and fails with the stored change (scratch worktree)
set -u
export GOFLAGS=-mod=mod GOPROXY=off
mkdir -p /tmp/rsstub-rc && gcc -O2 -x c -c /verif/stubs/rs_stub.c.txt -o /tmp/rsstub-rc/rs_stub.o && ar rcs /tmp/rsstub-rc/libreed_solomon_ffi.a /tmp/rsstub-rc/rs_stub.o
export CGO_LDFLAGS=-L/tmp/rsstub-rc
for name in "$@"; do
  sd=/verif/seeded/$name
  WT=$(mktemp -d /tmp/jv-rc.XXXXXX)
  git -C /repo worktree add --detach "$WT" HEAD >/dev/null 2>&1 || exit 2
  cd "$WT"; mkdir -p pkg/Rust-VRF/vrf-func-ffi/src; cp /verif/stubs/vrf.go pkg/Rust-VRF/vrf-func-ffi/src/vrf.go
  eval "$(python3 - "$sd/meta.json" <<'PY'
import json,re,sys,shlex,os
m=json.load(open(sys.argv[1]))
demo=os.path.basename(m['demo_file']); dest=m['demo_dest']
if dest.endswith('/'): dest+=demo
if not dest.endswith('_test.go'): dest=dest.rstrip('/')+'/'+demo
c=m['demo_cmd'].split('go test',1)[1]; c=re.sub(r'-vet=off|-count=1','',c)
print('DEMO=%s; DEST=%s; ARGS=(%s)' % (shlex.quote(demo), shlex.quote(dest), ' '.join(shlex.quote(a) for a in shlex.split(c))))
PY
)"
  mkdir -p "$(dirname "$DEST")"; cp "$sd/$DEMO" "$DEST"
  if go test -vet=off -count=1 "${ARGS[@]}" >/tmp/jv-rc.log 2>&1; then h=PASS; else h="FAIL($(grep -m1 -E '_test.go:[0-9]+:' /tmp/jv-rc.log | cut -c1-160))"; fi
  git apply "$sd/patch.diff"
  if go test -vet=off -count=1 "${ARGS[@]}" >/tmp/jv-rc.log 2>&1; then p=PASS; else p="FAIL($(grep -m1 -E '_test.go:[0-9]+:|panic' /tmp/jv-rc.log | cut -c1-160))"; fi
  echo "$name: at HEAD $h; with the change $p"
  cd /; git -C /repo worktree remove --force "$WT"; rm -rf "$WT"
done
rm -rf /tmp/rsstub-rc
