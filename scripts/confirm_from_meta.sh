#!/bin/bash
# usage: confirm_from_meta.sh <ID>...   (reads /tmp/mut/out/<ID>/m*/meta.json with demo_file/demo_dest/demo_go_test_args/needs_vrf_stub)
for id in "$@"; do
  for d in /tmp/mut/out/$id/m*; do
    [ -f $d/meta.json ] || { echo "no meta in $d"; continue; }
    k=$(basename $d)
    eval $(python3 - $d/meta.json <<'PY'
import json,sys,shlex
m=json.load(open(sys.argv[1]))
print("DF=%s; DD=%s; ARGS=%s; STUB=%s" % (shlex.quote(m.get('demo_file','')), shlex.quote(m.get('demo_dest','')), shlex.quote(m.get('demo_go_test_args','')), '1' if m.get('needs_vrf_stub') else '0'))
PY
)
    [ -n "$DF" ] && [ -n "$DD" ] || { echo "incomplete meta in $d"; continue; }
    /verif/scripts/confirm_seed.sh $id-$k $d "$DF" "$DD" $STUB -- $ARGS
  done
done
