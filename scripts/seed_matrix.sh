#!/bin/bash
# usage: seed_matrix.sh [seed dirs...]  -- runs each seed's own property check against it; prints CAUGHT / MISSED / NOAPPLY
cd /verif
have=$(python3 -c "import json;print(' '.join(c['property_id'] for c in json.load(open('MANIFEST.json'))['checks']))")
dirs=("$@"); [ ${#dirs[@]} -eq 0 ] && dirs=(seeded/*)
for d in "${dirs[@]}"; do
  s=$(basename $d); id=${s%%-*}
  case " $have " in *" $id "*) ;; *) echo "$s NOCHECK"; continue;; esac
  out=$(scripts/mutant.sh $d/patch.diff $id 2>&1)
  if echo "$out" | grep -q "PATCH DOES NOT APPLY"; then echo "$s NOAPPLY"; continue; fi
  if echo "$out" | grep -q "exit=1"; then echo "$s CAUGHT $(echo "$out" | grep -m1 'violated:' | cut -c1-160)";
  elif echo "$out" | grep -q "exit=0"; then echo "$s MISSED"; else echo "$s ERROR $(echo "$out" | tail -2 | tr '\n' ' ' | cut -c1-200)"; fi
done
