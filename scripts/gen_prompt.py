#!/usr/bin/env python3
"""usage: gen_prompt.py benign|mutant <ID> <tag> [extra sentence]  -> writes /tmp/mutkit/{benign|prompt}_<ID>_<tag>.md from scripts/templates and properties.jsonl
(the sub-agent gets only the property text and its scratch worktree /tmp/mw/<ID>-<tag>; nothing from /verif)"""
import json, sys, os
kind, ID, tag = sys.argv[1:4]
extra = sys.argv[4] if len(sys.argv) > 4 else ''
here = os.path.dirname(os.path.abspath(__file__))
props = {json.loads(l)['id']: json.loads(l) for l in open(os.path.join(here, '..', 'properties.jsonl'))}
p = props[ID]
a = p['anchors']
anch = 'files: ' + ', '.join(a.get('files', [])) + '; mechanisms: ' + '; '.join('%s (%s)' % (m['name'], m['where']) for m in a.get('mechanism', []))
t = open(os.path.join(here, 'templates', 'BENIGN_TEMPLATE.md' if kind == 'benign' else 'PROMPT_TEMPLATE.md')).read()
wt = '/tmp/mw/%s-%s' % (ID, tag)
q = p.get('quantifier', {})
for k, v in {'{WT}': wt, '{ID}': ID, '{TITLE}': p['title'], '{STATEMENT}': p['statement'], '{ANCHORS}': anch, '{IDL}': (ID + '_' + tag).lower(),
             '{QUANT}': q.get('text', ''), '{WHY}': p.get('why_tests_cant', '')}.items():
    t = t.replace(k, v)
if extra:
    t = t.replace('## Required checks', extra + '\n\n## Required checks', 1)
os.makedirs('/tmp/mutkit', exist_ok=True)
out = '/tmp/mutkit/%s_%s_%s.md' % ('benign' if kind == 'benign' else 'prompt', ID, tag)
open(out, 'w').write(t)
print(out)
