#!/bin/bash
# usage: mutant.sh <patch.diff> <property id>...
# Applies the patch to a throw-away worktree of /repo (outside /repo and
# /verif), runs the given checks against it, prints each verdict, removes the
# worktree. Evidence/out of the real tree are not touched.
set -u
PATCH=$(readlink -f "$1"); shift
WT=$(mktemp -d /tmp/jv-mut.XXXXXX)
SCR=$(mktemp -d /tmp/jv-scr.XXXXXX)
git -C /repo worktree add --detach "$WT" HEAD >/dev/null 2>&1 || { echo "worktree failed"; exit 2; }
if ! git -C "$WT" apply "$PATCH"; then echo "PATCH DOES NOT APPLY"; git -C /repo worktree remove --force "$WT"; rm -rf "$SCR"; exit 2; fi
rc_all=0
for id in "$@"; do
  out=$(JAMVERIF_REPO="$WT" JAMVERIF_SCRATCH="$SCR" ${JV_BIN:-/verif/bin/jamverif} check "$id" --tier "${TIER:-quick}" 2>&1); rc=$?
  echo "== $id exit=$rc"
  echo "$out" | grep -E "violated:|UNDECIDED|ERROR|VIOLATION|KNOWN" | sed "s#$WT/##g" | head -${LINES_MAX:-12}
  [ $rc -ne 0 ] && rc_all=1
done
git -C /repo worktree remove --force "$WT"; rm -rf "$SCR"
exit $rc_all
