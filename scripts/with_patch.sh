#!/bin/bash
# usage: with_patch.sh <patch.diff> <command...>
# Runs the command with JAMVERIF_REPO pointing at a throw-away worktree of /repo with the patch applied.
set -u
PATCH=$(readlink -f "$1"); shift
WT=$(mktemp -d /tmp/jv-wp.XXXXXX)
SCR=$(mktemp -d /tmp/jv-scr.XXXXXX)
git -C /repo worktree add --detach "$WT" HEAD >/dev/null 2>&1 || { echo "worktree failed"; exit 2; }
if ! git -C "$WT" apply "$PATCH"; then echo "PATCH DOES NOT APPLY"; git -C /repo worktree remove --force "$WT"; rm -rf "$SCR"; exit 2; fi
JAMVERIF_REPO="$WT" JAMVERIF_SCRATCH="$SCR" "$@" 2>&1 | sed "s#$WT/##g"
rc=${PIPESTATUS[0]}
git -C /repo worktree remove --force "$WT"; rm -rf "$SCR"
exit $rc
