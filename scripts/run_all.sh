#!/bin/bash
# Runs every claimed check (quick tier by default) in /verif against /repo, rewriting evidence/.
cd /verif
TIER=${1:-quick}
fail=0
for id in $(python3 -c "import json;print(' '.join(c['property_id'] for c in json.load(open('MANIFEST.json'))['checks']))"); do
  out=$(bin/jamverif check $id --tier $TIER 2>&1); rc=$?
  echo "$out" | head -1
  if [ $rc -ne 0 ]; then echo "   EXIT $rc"; echo "$out" | grep -E "violated|UNDECIDED|ERROR" | head -5; fail=1; fi
done
exit $fail
