#!/usr/bin/env python3
"""Generates /verif/MANIFEST.json from the claim table below (single source of truth)."""
import json, os, sys
HERE = os.path.dirname(os.path.dirname(os.path.abspath(__file__)))
props = [json.loads(l) for l in open(os.path.join(HERE, 'properties.jsonl'))]
sys.path.insert(0, os.path.join(HERE, 'scripts'))
from claims import CLAIMS, NOT_APPLICABLE

checks = []
for p in props:
    pid = p['id']
    if pid not in CLAIMS:
        continue
    c = CLAIMS[pid]
    checks.append({
        "property_id": pid,
        "quick_cmd": f"bin/jamverif check {pid} --tier quick",
        "thorough_cmd": f"bin/jamverif check {pid} --tier thorough",
        "evidence_file": f"evidence/{pid}.json",
        "replay_cmd_template": "cat {path}",
        "engine": "jamverif",
        "level_claimed": {"category": "other", "text": c['text'], "design_ref": f"DESIGN.md §4 {pid}"},
        "level_note": c['note'],
        "technique": c['technique'],
    })
na = []
for p in props:
    pid = p['id']
    if pid in CLAIMS:
        continue
    na.append({"property_id": pid, "reason": NOT_APPLICABLE.get(pid, "static rule for this property is not built yet; not replaced by a weaker proxy or a runtime test")})
m = {
    "version": 1,
    "setup_cmd": "cd jamverif && env -u GOTOOLCHAIN -u GOSUMDB GOFLAGS=-mod=mod GOPROXY=off GOWORK=off go build -o ../bin/jamverif . ",
    "hooks": {
        "guard": "verif",
        "enable": "no hooks: the analyser reads /repo's sources in place; the absent pkg/Rust-VRF submodule is supplied as a signature-only stub (stubs/vrf.go) through the go/packages overlay, never written into /repo",
        "baseline_off_cmd": "cd /repo && GOFLAGS=-mod=mod go test -json -vet=off -count=1 -timeout 25m ./...",
        "source_commits": [],
        "add_only": True,
    },
    "engines": [{"name": "jamverif", "path": "jamverif/", "serves_properties": [c["property_id"] for c in checks],
                 "kind_free_text": "repository-specific static analyser on go/packages + go/types + go/ssa (x/tools v0.29.0): lockset dataflow, CFG must-pass-through / guard-edge queries, canonical expression shapes, provenance tables, table agreement"}],
    "checks": checks,
    "not_applicable": na,
    "notes": "Every check loads and type-checks all packages of /repo's current working tree (65 packages, no tests) and decides structural necessary conditions of the property; see DESIGN.md for what each does not decide. Exit 2 (no VIOLATION line) means the analyser could not decide (unresolved anchor, load/type error, unrecognised idiom).",
}
json.dump(m, open(os.path.join(HERE, 'MANIFEST.json'), 'w'), indent=1)
print(f"{len(checks)} checks, {len(na)} not applicable")
