#!/bin/bash
# usage: cross_matrix.sh [-j N] [benign diffs...]  -- every check against every stored behaviour-preserving change (not only the property it was written for):
# all must stay silent (exit 0). One worktree and ONE load of the module per diff (jamverif check all).
cd /verif
J=4; if [ "${1:-}" = "-j" ]; then J=$2; shift 2; fi
diffs=("$@"); [ ${#diffs[@]} -eq 0 ] && diffs=(mutants/*/benign_*.diff)
export BIN=${JV_BIN:-/verif/bin/jamverif}
one() { p=$(readlink -f $1)
  WT=$(mktemp -d /tmp/jv-x.XXXXXX); SCR=$(mktemp -d /tmp/jv-xs.XXXXXX)
  git -C /repo worktree add --detach "$WT" HEAD >/dev/null 2>&1 || { echo "BAD  $1 :: worktree failed"; return; }
  if ! git -C "$WT" apply "$p" 2>/dev/null; then echo "BAD  $1 :: patch does not apply"; else
    out=$(JAMVERIF_REPO="$WT" JAMVERIF_SCRATCH="$SCR" $BIN check all 2>&1)
    bad=$(echo "$out" | grep "exit=[12]" | tr '\n' ' ')
    if [ -z "$bad" ]; then echo "OK   $1"; else echo "BAD  $1 :: $bad :: $(echo "$out" | grep -m3 'violated:\|ERROR' | sed "s#$WT/##g" | cut -c1-220 | tr '\n' ' ')"; fi
  fi
  git -C /repo worktree remove --force "$WT" >/dev/null 2>&1; rm -rf "$WT" "$SCR"; }
export -f one
printf '%s\n' "${diffs[@]}" | xargs -P $J -L 1 bash -c 'one "$@"' _ | sort > /tmp/cross_matrix.out
cat /tmp/cross_matrix.out
n=$(grep -c "^BAD" /tmp/cross_matrix.out); echo "diffs with an alarm from some check: $n of $(wc -l < /tmp/cross_matrix.out)"
[ "$n" = 0 ]
