#!/bin/bash
# usage: cross_matrix.sh [-j N] [benign diffs...]  -- every check against every stored behaviour-preserving change (not only the property it was written for):
# all must stay silent (exit 0). One worktree per diff, all checks run in it.
cd /verif
J=6; if [ "${1:-}" = "-j" ]; then J=$2; shift 2; fi
diffs=("$@"); [ ${#diffs[@]} -eq 0 ] && diffs=(mutants/*/benign_*.diff)
ids=$(python3 -c "import json;print(' '.join(c['property_id'] for c in json.load(open('MANIFEST.json'))['checks']))")
export IDS="$ids" BIN=${JV_BIN:-/verif/bin/jamverif}
one() { p=$1
  out=$(JV_BIN=$BIN LINES_MAX=3 /verif/scripts/mutant.sh $p $IDS 2>&1)
  bad=$(echo "$out" | grep -B0 -A3 "exit=[12]" | grep -v "^--" | cut -c1-260 | tr '\n' ' ')
  if [ -z "$bad" ]; then echo "OK   $p"; else echo "BAD  $p :: $bad"; fi; }
export -f one
printf '%s\n' "${diffs[@]}" | xargs -P $J -L 1 bash -c 'one "$@"' _ | sort > /tmp/cross_matrix.out
cat /tmp/cross_matrix.out
n=$(grep -c "^BAD" /tmp/cross_matrix.out); echo "diffs with an alarm from some check: $n of $(wc -l < /tmp/cross_matrix.out)"
[ "$n" = 0 ]
