#!/bin/bash
# usage: confirm_seed.sh <seed name> <dir with patch.diff+demo> <demo src file> <demo dest rel path> <stub 0|1|rs> -- <go test args>
# Confirms in a scratch worktree of /repo: patch applies, module builds (with VRF stub), demo passes at HEAD,
# demo fails with patch, pinned baseline 229/229 with patch. On success copies to /verif/seeded/<name>/.
set -u
NAME=$1; SRC=$2; DEMO=$3; DEST=$4; STUB=$5; shift 6
export GOFLAGS=-mod=mod GOPROXY=off
WT=$(mktemp -d /tmp/jv-seed.XXXXXX)
git -C /repo worktree add --detach "$WT" HEAD >/dev/null 2>&1 || exit 2
cleanup() { cd /;  git -C /repo worktree remove --force "$WT" >/dev/null 2>&1; rm -rf "$WT"; }
stub_on() { mkdir -p "$WT/pkg/Rust-VRF/vrf-func-ffi/src"; cp /verif/stubs/vrf.go "$WT/pkg/Rust-VRF/vrf-func-ffi/src/vrf.go"
  if [ "$STUB" = rs ]; then [ -x /tmp/mut/out/C32/common/setup_stubs.sh ] && /tmp/mut/out/C32/common/setup_stubs.sh "$WT" >/dev/null 2>&1; fi; }
stub_off() { rm -rf "$WT/pkg/Rust-VRF/vrf-func-ffi"; [ "$STUB" = rs ] && rm -rf "$WT/pkg/erasure_coding/reed-solomon-ffi/target"; true; }
LOG=""
say() { echo "$*"; LOG="$LOG$*\n"; }
cd "$WT"
git apply --check "$SRC/patch.diff" || { say "FAIL: patch does not apply"; cleanup; exit 1; }
mkdir -p "$(dirname "$WT/$DEST")"; cp "$SRC/$DEMO" "$WT/$DEST"
[ "$STUB" != 0 ] && stub_on
if go test -vet=off -count=1 "$@" >/tmp/jv-seed-head.log 2>&1; then say "demo at HEAD: PASS"; else say "FAIL: demo does not pass at HEAD"; tail -5 /tmp/jv-seed-head.log; cleanup; exit 1; fi
git apply "$SRC/patch.diff"
stub_on
if go build ./... >/tmp/jv-seed-build.log 2>&1; then say "build with patch (+stub): OK"; else say "FAIL: does not build"; tail -5 /tmp/jv-seed-build.log; cleanup; exit 1; fi
[ "$STUB" = 0 ] && stub_off
if go test -vet=off -count=1 "$@" >/tmp/jv-seed-mut.log 2>&1; then
  # probabilistic demos: retry a few times
  ok=0; for i in 1 2 3; do go test -vet=off -count=1 "$@" >/tmp/jv-seed-mut.log 2>&1 || { ok=1; break; }; done
  if [ $ok = 0 ]; then say "FAIL: demo still passes with patch"; cleanup; exit 1; fi
fi
say "demo with patch: FAIL (as required): $(grep -m1 -E '^\s+.*_test.go:[0-9]+:|--- FAIL' /tmp/jv-seed-mut.log | head -c 200)"
rm -f "$WT/$DEST"; rmdir "$(dirname "$WT/$DEST")" 2>/dev/null; stub_off
B=$(/verif/scripts/run_baseline.sh "$WT" | head -1); say "$B"
case "$B" in *229/229*) ;; *) say "FAIL: baseline"; cleanup; exit 1;; esac
cd /; cleanup
mkdir -p /verif/seeded/$NAME
cp "$SRC/patch.diff" /verif/seeded/$NAME/patch.diff; cp "$SRC/$DEMO" /verif/seeded/$NAME/$(basename "$DEST")
python3 - "$NAME" "$SRC" "$DEST" "$STUB" "$LOG" "$@" <<'PY'
import json,sys,os
name,src,dest,stub,log=sys.argv[1:6]; args=sys.argv[6:]
m={}
try: m=json.load(open(os.path.join(src,'meta.json')))
except Exception: pass
out={"property": name.split('-')[0], "summary": m.get("summary",""), "needs": m.get("needs",""),
     "demo_file": os.path.basename(dest), "demo_dest": dest, "demo_cmd": "go test -vet=off -count=1 "+" ".join(args),
     "needs_vrf_stub": stub!="0", "confirmed_by_me": [l for l in log.split("\\n") if l], "origin": "independent sub-agent given only the property text"}
json.dump(out,open(f"/verif/seeded/{name}/meta.json","w"),indent=1)
PY
echo "KEPT $NAME"
