#!/bin/bash
# usage: process_benign.sh <ID-tag>  (reads /tmp/mw/<ID-tag>/BENIGN/{patch.diff,meta.json,test}); confirms build/baseline/equivalence test and that every stored demonstration of the property still passes; keeps it as /verif/mutants/<ID>/benign_<tag>.diff; runs the check (expected: silent)
set -u
N=$1; ID=${N%%-*}; TAG=${N#*-}; D=/tmp/mw/$N/BENIGN
[ -f $D/patch.diff ] || { echo "no patch for $N"; exit 2; }
export GOFLAGS=-mod=mod GOPROXY=off
# link stand-in for the Rust erasure-coding library (tests of internal/work_package)
RS=$(mktemp -d /tmp/jv-rs.XXXXXX); gcc -O2 -x c -c /verif/stubs/rs_stub.c.txt -o $RS/rs_stub.o && ar rcs $RS/libreed_solomon_ffi.a $RS/rs_stub.o; export CGO_LDFLAGS=-L$RS
WT=$(mktemp -d /tmp/jv-ben.XXXXXX)
git -C /repo worktree add --detach "$WT" HEAD >/dev/null 2>&1 || exit 2
cleanup() { cd /; git -C /repo worktree remove --force "$WT" >/dev/null 2>&1; rm -rf "$WT" "$RS"; }
cd "$WT"; mkdir -p pkg/Rust-VRF/vrf-func-ffi/src; cp /verif/stubs/vrf.go pkg/Rust-VRF/vrf-func-ffi/src/vrf.go
git apply "$D/patch.diff" || { echo "FAIL: patch does not apply"; cleanup; exit 1; }
go build ./... >/tmp/jv-ben-build.log 2>&1 || { echo "FAIL: build"; tail -3 /tmp/jv-ben-build.log; cleanup; exit 1; }
echo "build: OK"
ok=1
for sd in /verif/seeded/$ID-*; do
  m=$sd/meta.json; [ -f $m ] || continue
  eval "$(python3 - "$m" <<'PY'
import json,re,sys,shlex,os
m=json.load(open(sys.argv[1]))
demo=os.path.basename(m['demo_file']); dest=m['demo_dest']
if dest.endswith('/'): dest+=demo
if not dest.endswith('_test.go'): dest=dest.rstrip('/')+'/'+demo
c=m['demo_cmd'].split('go test',1)[1]; c=re.sub(r'-vet=off|-count=1','',c)
print('DEMO=%s; DEST=%s; ARGS=(%s)' % (shlex.quote(demo), shlex.quote(dest), ' '.join(shlex.quote(a) for a in shlex.split(c))))
PY
)"
  mkdir -p "$(dirname "$DEST")"; cp "$sd/$DEMO" "$DEST" 2>/dev/null || continue
  if go test -vet=off -count=1 "${ARGS[@]}" >/tmp/jv-ben-demo.log 2>&1; then echo "  demo $(basename $sd): PASS"; else
    # does it pass on the unchanged tree at all? (a demonstration can go stale after a later fix: commit)
    git apply -R "$D/patch.diff"
    if go test -vet=off -count=1 "${ARGS[@]}" >/tmp/jv-ben-demo0.log 2>&1; then echo "  demo $(basename $sd): FAIL with the refactor"; ok=0; else echo "  demo $(basename $sd): STALE (fails on the unchanged tree too) — ignored, refresh it"; fi
    git apply "$D/patch.diff"
  fi
  rm -f "$DEST"
done
TF=$(python3 -c "import json,os;m=json.load(open('$D/meta.json'));print(os.path.basename(m['test_file']))")
TD=$(python3 -c "
import json,os;m=json.load(open('$D/meta.json'));d=m['test_dest'];t=os.path.basename(m['test_file'])
print(d if d.endswith('_test.go') else d.rstrip('/')+'/'+t)")
mkdir -p "$(dirname "$TD")"; cp "$D/$TF" "$TD"
PK=./$(dirname "$TD")/
if go test -vet=off -count=1 "$PK" -run . >/tmp/jv-ben-eq.log 2>&1; then echo "  equivalence test with refactor: PASS"; else
  # other tests in the package may fail for missing vectors: run only the agent's test names
  NAMES=$(grep -oE "^func (Test[A-Za-z0-9_]+)" "$TD" | awk '{print $2}' | paste -sd'|')
  if go test -vet=off -count=1 -run "^($NAMES)\$" "$PK" >/tmp/jv-ben-eq.log 2>&1; then echo "  equivalence test with refactor: PASS"; else echo "  equivalence test with refactor: FAIL"; ok=0; fi
fi
rm -f "$TD"; rm -rf pkg/Rust-VRF/vrf-func-ffi
B=$(/verif/scripts/run_baseline.sh "$WT" | head -1); echo "  $B"
case "$B" in *229/229*) ;; *) ok=0;; esac
cd /; cleanup
[ $ok = 1 ] || { echo "NOT KEPT (not confirmed behaviour-preserving)"; exit 1; }
mkdir -p /verif/mutants/$ID; cp $D/patch.diff /verif/mutants/$ID/benign_$TAG.diff; cp $D/meta.json /verif/mutants/$ID/benign_$TAG.meta.json; cp $D/$TF /verif/mutants/$ID/benign_${TAG}_$TF.txt
echo "KEPT mutants/$ID/benign_$TAG.diff"
JV_BIN=${JV_BIN:-/verif/bin/jamverif} /verif/scripts/mutant.sh /verif/mutants/$ID/benign_$TAG.diff $ID 2>&1 | grep -v "^  rule" | cut -c1-500 | head -8
