#!/bin/bash
# usage: full_matrix.sh [-j N] [ID...]  -- every stored change against its property's check, in parallel.
# seeded/<ID>-*/patch.diff and mutants/<ID>/bad_*.diff must be reported (exit 1), mutants/<ID>/benign_*.diff must be silent (exit 0).
# Prints one line per change and a final count of mismatches; exit 1 when any verdict is not the expected one.
cd /verif
J=6; if [ "${1:-}" = "-j" ]; then J=$2; shift 2; fi
ids=("$@"); [ ${#ids[@]} -eq 0 ] && ids=($(python3 -c "import json;print(' '.join(c['property_id'] for c in json.load(open('MANIFEST.json'))['checks']))"))
BIN=${JV_BIN:-/verif/bin/jamverif}
LIST=$(mktemp)
for id in "${ids[@]}"; do
  for p in seeded/$id-*/patch.diff; do [ -f "$p" ] || continue
    exp=1; grep -q '"status": *"neutralised' $(dirname $p)/meta.json 2>/dev/null && exp=0
    echo "$id $p $exp" >> $LIST; done
  for p in mutants/$id/bad_*.diff; do [ -f "$p" ] && echo "$id $p 1" >> $LIST; done
  for p in mutants/$id/benign_*.diff; do [ -f "$p" ] && echo "$id $p 0" >> $LIST; done
done
one() { id=$1; p=$2; exp=$3
  out=$(JV_BIN=$BIN /verif/scripts/mutant.sh $p $id 2>&1)
  rc=$(echo "$out" | grep -o "exit=[0-9]*" | head -1 | cut -d= -f2)
  if [ "$rc" = "$exp" ]; then echo "OK   $id $p exit=$rc"; else echo "BAD  $id $p exit=${rc:-?} expected=$exp :: $(echo "$out" | grep -m2 'violated:\|ERROR\|DOES NOT' | cut -c1-220 | tr '\n' ' ')"; fi; }
export -f one; export BIN
xargs -P $J -L 1 bash -c 'one "$@"' _ < $LIST | sort > /tmp/full_matrix.out
rm -f $LIST
cat /tmp/full_matrix.out
n=$(grep -c "^BAD" /tmp/full_matrix.out); echo "mismatches: $n of $(wc -l < /tmp/full_matrix.out)"
[ "$n" = 0 ]
