# Claim table: one entry per property that has a built check.
CLAIMS = {
 "C22": {
  "text": "Decides statically the mechanisms that make accumulation independent of hash-map order and goroutine scheduling: every range over a map in internal/accumulation and PVM's accumulate-invocation code is classified (order-independent body / product sorted by a total order before any other use / product consumed only by a reviewed commutative consumer, reasons in the table); the SenderID sort that makes deferred-transfer delivery independent of the producing map order; concurrently running closures write only index-addressed slots or mutex-protected maps and never append to captured slices; singleflight keys are injective and the 'shared' flag is unused. Necessary conditions, not equality of posterior states.",
  "note": "Trusted: the reviewed-consumer table (5 entries, each with the consumer and why it is commutative), go/types, go/ssa. Calls on the right-hand side of := inside a map loop are assumed order-pure unless they receive an encoder/writer/hash. Not decided: stability of the transfer sort for equal senders beyond contiguity, comparator totality of other sorts.",
  "technique": "static analysis: AST/type effect classification of map ranges (sorted-before-use), SSA lockset + store classification of goroutine closures, expression-shape check of singleflight keys",
 },
 "C28": {
  "text": "Decides, on SSA, the lock/ordering mechanisms that carry wire/ID alignment in internal/telemetry: guarded sequencer/drop state only under the sequencer lock (requires-lock set inferred to a fixpoint), no re-acquisition, nothing blocking under the lock or anywhere in the emit paths, the producer section (nextID → exactly one non-blocking send of envelope{id} or drops.record(id)), parent validation in the same section, claim-before-write in the writer, the expected-wire-ID counter regions, the connect/reconnect ordering, and the ID arithmetic shapes. A structural necessary-condition check, not a proof of alignment over all interleavings.",
  "note": "Trusted: go/types, go/ssa, the blocking-operation classification table, instance-insensitive lock abstraction (one sequencer per client). Not decided: alignment across every interleaving, frame well-formedness.",
  "technique": "static analysis: SSA must/may lockset dataflow + CFG must-pass-through/guard-edge path queries + canonical expression shapes",
 },
}
CLAIMS["C32"] = {
  "text": "Decides the provenance of every field of the work digest (work_package.C, GP 14.8), of the package specification (work_package.A, GP 14.16) and of the refine-output accounting (WorkReportCompute → I: running Σ of result sizes, item/result/gas pairing, bundle and hash parameters) by backward slicing of SSA values into canonical source terms compared with the specification table. Insensitive to temporaries, local names, statement order and loop style.",
  "note": "Trusted: go/ssa, the canonical renderer (conversions between equal-width named types transparent; calls uninterpreted), the expected table transcribed from GP 14.8/14.16. Not decided: results of the PVM, erasure coding and Merkle functions that the fields are derived from.",
  "technique": "static analysis: SSA backward-slice provenance (canonical expression shapes incl. Σ/append accumulation) vs specification table",
}
CLAIMS["C34"] = {
  "text": "Decides, on SSA, the effect/provenance tables of activity statistics: the exact store each per-validator updater performs (counter, index, increment; Guarantees guarded by reporters-set membership of the same validator's key), the dispatch of the six updaters with the header's author index and the block's extrinsic parts and the write-back of current records only, the epoch-rotation test (τ/E of prior vs posterior) with the setter calls confined to their arm, and field-for-field construction of core and service records from same-named sums over work digests, bundle size, DA load, popularity, provided and accumulate statistics.",
  "note": "Trusted: canonical SSA expression renderer, expected table transcribed from GP 13.3-13.16. Not decided: reporter-set contents (guarantor assignment values), DA-load arithmetic, popularity bit indexing.",
  "technique": "static analysis: SSA effect extraction (non-local stores, setter calls, struct-literal fields) and guard-edge confinement vs specification table",
}
CLAIMS["C25"] = {
  "text": "Decides the provenance/effect tables of the recent-history transition: History2HistoryDagger performs exactly one store (last entry's state root ← header's parent state root, guarded by non-empty history, applied to prior β.History); the appended entry's fields and their sources (Blake2b of the encoded header, zero state root, MapWorkReportFromEg of the block's guarantees, commitment of this block's posterior accumulation outputs); the grow/evict arms of AddItem2BetaHPrime (copy source β† or β†[1:], slot index, bound = types.MaxBlocksHistory, arms selected by len < H); reported packages sorted by hash bytes before return; the MMR append/commit chain feeding both β_B' and the entry.",
  "note": "Trusted: canonical SSA renderer (calls uninterpreted), GP 7.5-7.8 table. Not decided: hash values; bit-identity of untouched entries beyond absence of any other store.",
  "technique": "static analysis: SSA effect/provenance extraction (stores, copy, setter and helper call arguments) + AST comparator check vs specification table",
}
NOT_APPLICABLE = {
 "C15": "equality of a 32-byte hash with an independent bit-level reference over all entry sets; the only static handles are byte constants of the node encodings (a frozen fragment) — no structural clause that is not circular; sibling agreement of cached/uncached recursion is claimed under C16",
 "C30": "round-trip equality whose mechanism is a Rust Reed-Solomon crate behind cgo; no Rust analyser is installed and the Go side is a thin FFI wrapper with no decidable clause of the statement",
}
