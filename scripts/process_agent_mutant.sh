#!/bin/bash
# usage: process_agent_mutant.sh <ID-tag>   (reads /tmp/mw/<ID-tag>/MUTANT/{patch.diff,meta.json,demo}); confirms it, keeps it as /verif/seeded/<ID-tag>, runs the property's check on it
N=$1; D=/tmp/mw/$N/MUTANT
[ -f $D/patch.diff ] || { echo "no patch for $N"; exit 2; }
eval "$(python3 - "$D" <<'PY'
import json,re,sys,shlex,os
d=sys.argv[1]
m=json.load(open(os.path.join(d,'meta.json')))
demo=os.path.basename(m['demo_file'])
dest=m['demo_dest']
if dest.endswith('/'): dest=dest+demo
if not dest.endswith('_test.go'): dest=dest.rstrip('/')+'/'+demo
c=m['demo_cmd'].split('go test',1)[1]
c=re.sub(r'-vet=off|-count=1','',c)
args=shlex.split(c)
print('DEMO=%s' % shlex.quote(demo))
print('DEST=%s' % shlex.quote(dest))
print('ARGS=(%s)' % ' '.join(shlex.quote(a) for a in args))
PY
)"
echo "== $N demo=$DEMO dest=$DEST args=${ARGS[*]}"
/verif/scripts/confirm_seed.sh $N $D $DEMO $DEST 1 -- "${ARGS[@]}" || exit 1
ID=${N%%-*}
/verif/scripts/mutant.sh /verif/seeded/$N/patch.diff $ID 2>&1 | grep -v "^  rule" | cut -c1-400 | head -6
