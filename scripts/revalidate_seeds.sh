#!/bin/bash
# usage: revalidate_seeds.sh [seed dirs...] -- runs every stored demonstration on the unchanged tree (HEAD of /repo, scratch worktree): it must PASS there.
# Prints "STALE <seed>" for demonstrations that no longer pass at HEAD (e.g. after a later fix: commit changed the behaviour they pinned).
set -u
export GOFLAGS=-mod=mod GOPROXY=off
WT=$(mktemp -d /tmp/jv-reval.XXXXXX)
git -C /repo worktree add --detach "$WT" HEAD >/dev/null 2>&1 || exit 2
cleanup() { cd /; git -C /repo worktree remove --force "$WT" >/dev/null 2>&1; rm -rf "$WT" /tmp/rsstub-reval; }
trap cleanup EXIT
cd "$WT"; mkdir -p pkg/Rust-VRF/vrf-func-ffi/src; cp /verif/stubs/vrf.go pkg/Rust-VRF/vrf-func-ffi/src/vrf.go
mkdir -p /tmp/rsstub-reval && gcc -O2 -x c -c /verif/stubs/rs_stub.c.txt -o /tmp/rsstub-reval/rs_stub.o && ar rcs /tmp/rsstub-reval/libreed_solomon_ffi.a /tmp/rsstub-reval/rs_stub.o
export CGO_LDFLAGS=-L/tmp/rsstub-reval
dirs=("$@"); [ ${#dirs[@]} -eq 0 ] && dirs=(/verif/seeded/*)
for sd in "${dirs[@]}"; do
  m=$sd/meta.json; [ -f $m ] || continue
  eval "$(python3 - "$m" <<'PY'
import json,re,sys,shlex,os
m=json.load(open(sys.argv[1]))
demo=os.path.basename(m['demo_file']); dest=m['demo_dest']
if dest.endswith('/'): dest+=demo
if not dest.endswith('_test.go'): dest=dest.rstrip('/')+'/'+demo
c=m['demo_cmd'].split('go test',1)[1]; c=re.sub(r'-vet=off|-count=1','',c)
print('DEMO=%s; DEST=%s; ARGS=(%s)' % (shlex.quote(demo), shlex.quote(dest), ' '.join(shlex.quote(a) for a in shlex.split(c))))
PY
)"
  mkdir -p "$(dirname "$DEST")"; cp "$sd/$DEMO" "$DEST" 2>/dev/null || { echo "NOFILE $(basename $sd)"; continue; }
  if go test -vet=off -count=1 "${ARGS[@]}" >/tmp/jv-reval.log 2>&1; then echo "ok    $(basename $sd)"; else echo "STALE $(basename $sd): $(grep -m1 -E '_test.go:[0-9]+:|build failed|cannot find' /tmp/jv-reval.log | cut -c1-200)"; fi
  rm -f "$DEST"
done
