#!/bin/bash
# usage: new_worktree.sh <name>  -> creates /tmp/mw/<name> (detached worktree of /repo HEAD) with the VRF build stand-in installed (untracked)
set -e
WT=/tmp/mw/$1
git -C /repo worktree add --detach "$WT" HEAD >/dev/null 2>&1
mkdir -p "$WT/pkg/Rust-VRF/vrf-func-ffi/src"
cp /tmp/mutkit/vrf_stub.go "$WT/pkg/Rust-VRF/vrf-func-ffi/src/vrf.go"
echo "$WT"
