#!/bin/bash
# usage: run_baseline.sh <tree>   -- runs the pinned suite (go test -json ./...) in <tree> and prints "baseline tests passing: N/229"
T=${1:-/repo}
export GOFLAGS=-mod=mod GOPROXY=off
OUT=$(mktemp /tmp/jv-base.XXXXXX.json)
(cd "$T" && go test -mod=mod -json -vet=off -count=1 -timeout 25m ./... > "$OUT" 2>/dev/null)
python3 - "$OUT" <<'PY'
import json,sys
want=set(json.load(open('/root/.vp/BASELINE.json'))['stable_pass'])
ok=set()
for l in open(sys.argv[1]):
    try: e=json.loads(l)
    except Exception: continue
    if e.get('Action')=='pass' and e.get('Test'):
        ok.add(e['Package']+'::'+e['Test'])
miss=sorted(want-ok)
print(f"baseline tests passing: {len(want&ok)}/{len(want)}")
for m in miss[:20]: print("  MISSING", m)
PY
rm -f "$OUT"
